"""./vf coverage [tier] [ids...]: development aid, not a check.  Runs the checks against drivers built with clang source
coverage and lists the repository lines no check executes (a change there cannot be noticed by anything).  Output:
build/cov/uncovered.txt, build/cov/summary.txt."""
import os, subprocess, sys, glob, shutil, json
import build

VERIF = build.VERIF


def run(args):
    tier = "quick"
    if args and args[0] in ("quick", "thorough"):
        tier, args = args[0], args[1:]
    ids = args or ["C%02d" % i for i in range(1, 21)]
    prof = "/dev/shm/vfcov"
    shutil.rmtree(prof, ignore_errors=True)
    os.makedirs(prof)
    out = os.path.join(VERIF, "build", "cov")
    os.makedirs(out, exist_ok=True)
    env = dict(os.environ, VERIF_COV=prof, VERIF_EVIDENCE_DIR="build/cov/evidence", VERIF_REPLAY_DIR="build/cov/replays")
    for i in ids:
        r = subprocess.run([os.path.join(VERIF, "vf"), "check", i, "--tier", tier], env=env, stdout=subprocess.PIPE, stderr=subprocess.STDOUT, text=True)
        print(i, "exit", r.returncode, r.stdout.strip().split("\n")[-1][:200], flush=True)
    os.environ["VERIF_COV"] = prof
    for variant in ("cov", "cov-bundled"):
        raws = glob.glob(os.path.join(prof, variant + "-*.profraw"))
        if not raws:
            continue
        exe = build.driver(variant)
        pd = os.path.join(out, variant + ".profdata")
        subprocess.run(["llvm-profdata", "merge", "-sparse", "-o", pd] + raws, check=True)
        rep = subprocess.run(["llvm-cov", "report", exe, "-instr-profile=" + pd, "-ignore-filename-regex=/verif/"], stdout=subprocess.PIPE, text=True).stdout
        open(os.path.join(out, "summary-%s.txt" % variant), "w").write(rep)
        show = subprocess.run(["llvm-cov", "show", exe, "-instr-profile=" + pd, "-ignore-filename-regex=/verif/", "-show-line-counts-or-regions=0",
                               "-show-branches=count"], stdout=subprocess.PIPE, text=True).stdout
        open(os.path.join(out, "show-%s.txt" % variant), "w").write(show)
        # uncovered executable lines: count column is 0
        unc = []
        cur = None
        for line in show.split("\n"):
            if line.endswith(":") and line.startswith("/"):
                cur = line[:-1]
                continue
            parts = line.split("|")
            if len(parts) >= 3 and parts[1].strip() == "0" and parts[0].strip().isdigit():
                unc.append("%s:%s: %s" % (os.path.relpath(cur, build.REPO) if cur else "?", parts[0].strip(), parts[2].rstrip()))
        open(os.path.join(out, "uncovered-%s.txt" % variant), "w").write("\n".join(unc) + "\n")
        print(variant, "uncovered lines:", len(unc), "->", os.path.join(out, "uncovered-%s.txt" % variant))
    shutil.rmtree(prof, ignore_errors=True)
    return 0
