#!/usr/bin/env python3
"""usage: seedkeep.py <tag> <name> <property> <what> <needs> <caught_by,comma> <missed_by,comma> <first_missed 0|1> [note]
copies a confirmed seeded change from the sub-agent's output directory into seeded/<name>/ and writes meta.json"""
import sys, os, json, shutil
VERIF = os.path.dirname(os.path.dirname(os.path.abspath(__file__)))
tag, name, prop, what, needs, caught, missed, first = sys.argv[1:9]
note = sys.argv[9] if len(sys.argv) > 9 else ""
src = os.path.join(os.environ.get("SEED_OUT", "/tmp/seedout"), tag)
dst = os.path.join(VERIF, "seeded", name)
os.makedirs(dst, exist_ok=True)
for f in os.listdir(src):
    if f in ("patch.diff", "NOTES.md") or f.startswith("demo.") and f.split(".")[-1] in ("c", "sh", "py"):
        shutil.copy(os.path.join(src, f), os.path.join(dst, f))
meta = {
    "name": name, "property": prop,
    "origin": "independent sub-agent given only the text of %s (plus a focus clause taken from that text) and a scratch worktree" % prop,
    "what": what, "needs_to_manifest": needs,
    "caught_by": [c for c in caught.split(",") if c], "missed_by": [c for c in missed.split(",") if c],
    "first_run_missed": first == "1", "tier": "quick",
    "confirmed": {
        "repo_tests_with_change": "Ok 36, Expected Fail 1, Fail 0 (meson test, 37/37)",
        "demo_with_change": "exit 1", "demo_without_change": "exit 0",
        "how": "mc/seedverify.sh in the agent's scratch worktree (git apply -R / git apply around the demo); checks run against that worktree "
               "via mc/seedeval2.sh (VERIF_REPO=<worktree> ./vf check <id> --tier quick); ./vf selftest re-applies the patch to a fresh worktree"},
}
if note:
    meta["note"] = note
json.dump(meta, open(os.path.join(dst, "meta.json"), "w"), indent=1)
print("kept", dst)
