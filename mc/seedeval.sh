#!/bin/bash
# usage: seedeval.sh <patch> <tier> <check>...   - apply a seeded patch to /repo, run checks, undo.  Prints one line per check.
patch=$1; tier=$2; shift 2
cd /repo || exit 2
if [ -n "$(git status --porcelain)" ]; then echo "repo not clean"; exit 2; fi
git apply "$patch" || { echo "patch does not apply"; exit 2; }
cd /verif
for c in "$@"; do
  out=$(VERIF_EVIDENCE_DIR=build/seedeval/evidence VERIF_REPLAY_DIR=build/seedeval/replays ./vf check $c --tier $tier 2>&1); rc=$?
  nv=$(echo "$out" | grep -c '^VIOLATION')
  echo "== $c tier=$tier exit=$rc violations=$nv"
  echo "$out" | grep -A2 '^VIOLATION' | grep 'what:' | head -3 | cut -c1-400
  echo "$out" | grep -E 'HARNESS|Traceback' | head -3
done
git -C /repo checkout -- .
