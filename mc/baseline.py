"""./vf baseline: the repository's own test suite with the guard OFF (plain meson build of the working tree)."""
import json, os, subprocess, tempfile, shutil, re
import build


def run():
    base = json.load(open("/root/.vp/BASELINE.json")) if os.path.exists("/root/.vp/BASELINE.json") else None
    d = tempfile.mkdtemp(prefix="vf-baseline-", dir="/dev/shm" if os.path.isdir("/dev/shm") else None)
    try:
        r = subprocess.run(["meson", "setup", d, build.REPO], stdout=subprocess.PIPE, stderr=subprocess.STDOUT, text=True)
        if r.returncode != 0:
            print(r.stdout[-3000:]); print("baseline: meson setup failed"); return 2
        r = subprocess.run(["meson", "test", "-C", d, "--print-errorlogs"], stdout=subprocess.PIPE, stderr=subprocess.STDOUT, text=True)
        out = r.stdout
        tl = os.path.join(d, "meson-logs", "testlog.json")
        passed, failed = set(), set()
        if os.path.exists(tl):
            for line in open(tl):
                try:
                    j = json.loads(line)
                except ValueError:
                    continue
                name = "zck::" + j["name"] if not j["name"].startswith("zck") else j["name"]
                name = re.sub(r"^zck:\s*", "zck::", name) if name.startswith("zck:") and not name.startswith("zck::") else name
                (passed if j["result"] in ("OK", "EXPECTEDFAIL") else failed).add(name)
        print("baseline (guard off): %d passed, %d failed" % (len(passed), len(failed)))
        for f in sorted(failed):
            print("  FAILED", f)
        if base:
            want = set(base["stable_pass"])
            norm = lambda s: s.split("::", 1)[-1].strip()
            missing = {norm(w) for w in want} - {norm(p) for p in passed}
            if missing:
                print("baseline: tests of BASELINE.json that did not pass:", sorted(missing))
                return 1
        return 1 if failed or r.returncode != 0 else 0
    finally:
        shutil.rmtree(d, ignore_errors=True)
