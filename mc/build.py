"""Build the verification variants of zchunk from the *current working tree* of the repo.

Objects are cached by a hash of (preprocessed-independent) source bytes of the file, of every
header in the tree, and of the flags, so an edit in /repo recompiles what changed and nothing built
from other source content is ever reused.
"""
import hashlib, os, subprocess, sys, glob, json, shutil, time, re
from concurrent.futures import ThreadPoolExecutor

VERIF = os.path.dirname(os.path.dirname(os.path.abspath(__file__)))
REPO = os.environ.get("VERIF_REPO", "/repo")
BUILD = os.environ.get("VERIF_BUILD", os.path.join(VERIF, "build"))
GUARD = "ZCHUNK_VERIF"

WRAPS = ["read", "write", "lseek", "lseek64", "close", "ftruncate", "ftruncate64",
         "mkstemp", "mkstemp64", "unlink", "open", "open64", "malloc", "calloc", "realloc"]

# symbols from outside the repo that the repo objects may reference without being "owned" by the
# seam: reviewed as deterministic given their arguments (memory, string, math, zstd, crypto, regex,
# stdio formatting, argp).  Anything else that is undefined and not wrapped is reported as an
# assumption in the evidence ("unowned symbol").
DETERMINISTIC_PREFIXES = ("ZSTD_", "ZDICT_", "EVP_", "OPENSSL_", "SHA", "__asan", "__ubsan", "__tsan",
                          "__sanitizer", "curl_", "argp_", "__ctype", "__errno", "__stack_chk", "__isoc",
                          "__assert", "__mem", "__str", "__v", "__s", "__f", "__p", "__d")
DETERMINISTIC = set("""malloc calloc realloc free memcpy memmove memset memcmp strlen strcmp strncmp strncpy strcpy
bcmp strerror strdup strndup snprintf vsnprintf sprintf printf fprintf vfprintf dprintf vdprintf puts putchar fputs fputc perror
regcomp regexec regfree regerror exit abort _exit basename __xpg_basename getenv umask stdout stderr stdin
fflush fwrite fread fopen fclose strtol strtoul atoi strchr strrchr strstr memchr qsort abs labs
__errno_location __assert_fail access stat fstat stat64 fstat64 mkdir rmdir opendir readdir closedir
program_invocation_name program_invocation_short_name waitpid fork execl execv execvp dup dup2 pipe
mkdtemp chdir getcwd sscanf fscanf strcat strncat memmem fdopen fileno remove rename fcntl fcntl64
""".split())


def sh(cmd, **kw):
    return subprocess.run(cmd, check=True, stdout=subprocess.PIPE, stderr=subprocess.PIPE, text=True, **kw)


def pkg_version(name):
    return sh(["pkg-config", "--modversion", name]).stdout.strip()


def vtuple(v):
    return tuple(int(x) for x in re.findall(r"\d+", v)[:3])


def repo_version():
    m = re.search(r"version\s*:\s*'([^']+)'", open(os.path.join(REPO, "meson.build")).read())
    return m.group(1) if m else "0"


def meson_defines(openssl=True):
    d = ["-D_FILE_OFFSET_BITS=64", "-D_GNU_SOURCE", "-DZCHUNK_ZSTD"]
    if vtuple(pkg_version("libzstd")) <= (1, 4, 9):
        d.append("-DOLD_ZSTD")
    if openssl:
        d.append("-DZCHUNK_OPENSSL")
        if vtuple(pkg_version("openssl")) < (3, 0, 0):
            d.append("-DZCHUNK_OPENSSL_DEPRECATED")
    return d


VARIANTS = {
    # name: (cc, san flags, openssl backend)
    "asan": ("clang", ["-O1", "-g", "-fno-omit-frame-pointer", "-fsanitize=address,undefined",
                       "-fno-sanitize-recover=address", "-fsanitize-recover=undefined"], True),
    "asan-bundled": ("clang", ["-O1", "-g", "-fno-omit-frame-pointer", "-fsanitize=address,undefined",
                               "-fno-sanitize-recover=address", "-fsanitize-recover=undefined"], False),
    "tsan": ("clang", ["-O1", "-g", "-fno-omit-frame-pointer", "-fsanitize=thread"], True),
    "tsan-bundled": ("clang", ["-O1", "-g", "-fno-omit-frame-pointer", "-fsanitize=thread"], False),
    "plain": ("clang", ["-O2", "-g"], True),
    "plain-bundled": ("clang", ["-O2", "-g"], False),
    # development aid (./vf coverage): which repository lines do the checks execute at all
    "cov": ("clang", ["-O0", "-g", "-fprofile-instr-generate", "-fcoverage-mapping"], True),
    "cov-bundled": ("clang", ["-O0", "-g", "-fprofile-instr-generate", "-fcoverage-mapping"], False),
}


def lib_sources(openssl):
    out = []
    for p in sorted(glob.glob(os.path.join(REPO, "src/lib/**/*.c"), recursive=True)):
        rel = os.path.relpath(p, REPO)
        if "/win32/" in rel:
            continue
        if "/hash/openssl/" in rel and not openssl:
            continue
        if "/hash/bundled/" in rel and openssl:
            continue
        out.append(p)
    return out


TOOLS = {
    "zck": ["src/zck.c"],
    "unzck": ["src/unzck.c"],
    "zck_read_header": ["src/zck_read_header.c"],
    "zck_delta_size": ["src/zck_delta_size.c"],
    "zck_gen_zdict": ["src/zck_gen_zdict.c"],
    "zckdl": ["src/zck_dl.c"],
}
TOOL_COMMON = ["src/util_common.c", "src/memmem.c"]


def header_digest():
    h = hashlib.sha256()
    for p in sorted(glob.glob(os.path.join(REPO, "src/**/*.h"), recursive=True) +
                    glob.glob(os.path.join(REPO, "include/*"))):
        h.update(p.encode()); h.update(open(p, "rb").read())
    h.update(open(os.path.join(REPO, "meson.build"), "rb").read())
    return h.hexdigest()


def drv_header_digest():
    h = hashlib.sha256()
    for p in sorted(glob.glob(os.path.join(VERIF, "drv/*.h"))):
        h.update(open(p, "rb").read())
    return h.hexdigest()


def compile_one(cc, src, flags, objdir, extra_key=""):
    key = hashlib.sha256()
    key.update(open(src, "rb").read())
    key.update(" ".join(flags).encode()); key.update(cc.encode()); key.update(extra_key.encode())
    obj = os.path.join(objdir, key.hexdigest()[:24] + "-" + os.path.basename(src).replace(".c", ".o"))
    if not os.path.exists(obj):
        tmp = obj + ".tmp%d" % os.getpid()
        r = subprocess.run([cc] + flags + ["-c", src, "-o", tmp], stdout=subprocess.PIPE, stderr=subprocess.PIPE, text=True)
        if r.returncode != 0:
            raise RuntimeError("compile failed: %s\n%s" % (src, r.stderr))
        os.replace(tmp, obj)
    return obj


def build_variant(name, verbose=False):
    """returns path of the driver binary for the variant"""
    cc, san, openssl = VARIANTS[name]
    vdir = os.path.join(BUILD, name)
    objdir = os.path.join(BUILD, "obj")
    os.makedirs(vdir, exist_ok=True); os.makedirs(objdir, exist_ok=True)
    zck_h = open(os.path.join(REPO, "include/zck.h.in")).read().replace("@version@", repo_version())
    incdir = os.path.join(vdir, "include-" + hashlib.sha256(zck_h.encode()).hexdigest()[:12])
    os.makedirs(incdir, exist_ok=True)
    hp = os.path.join(incdir, "zck.h")
    if not os.path.exists(hp) or open(hp).read() != zck_h:
        open(hp, "w").write(zck_h)
    hdig = header_digest() + hashlib.sha256(zck_h.encode()).hexdigest()
    defs = meson_defines(openssl) + ["-D" + GUARD, "-std=gnu11", "-w"]
    inc = ["-I", incdir, "-I", os.path.join(REPO, "src/lib"), "-I", os.path.join(REPO, "src"),
           "-I", "/usr/include/x86_64-linux-gnu"]
    flags = san + defs + inc
    jobs = []
    for s in lib_sources(openssl):
        jobs.append(("lib", s, flags))
    for s in TOOL_COMMON:
        jobs.append(("toolc", os.path.join(REPO, s), flags))
    for t, srcs in TOOLS.items():
        for s in srcs:
            jobs.append(("tool:" + t, os.path.join(REPO, s), flags))
    dflags = san + ["-std=gnu11", "-D_GNU_SOURCE", "-D_FILE_OFFSET_BITS=64", "-Wall", "-Wno-unused-function",
                    "-I", incdir, "-I", os.path.join(REPO, "src/lib"), "-I", os.path.join(VERIF, "drv"),
                    "-DVF_VARIANT_" + name.upper().replace("-", "_")] + meson_defines(openssl)
    if name.startswith("tsan"):
        dflags.append("-DVF_TSAN")
    dh = drv_header_digest()
    for s in sorted(glob.glob(os.path.join(VERIF, "drv/*.c"))):
        fl = dflags
        if os.path.basename(s) in ("sched.c",) and name.startswith("tsan"):
            # scheduler TU stays uninstrumented so its hand-offs do not create happens-before edges
            fl = [f for f in dflags if f != "-fsanitize=thread"]
        jobs.append(("drv", s, fl))
    with ThreadPoolExecutor(16) as ex:
        objs = list(ex.map(lambda j: (j[0], compile_one(cc, j[1], j[2], objdir, hdig + (dh if j[0] == "drv" else ""))), jobs))
    # rename main in tools so they are callable in-process
    link = []
    for kind, o in objs:
        if kind.startswith("tool:"):
            t = kind[5:]
            ro = o.replace(".o", ".%s.ren.o" % t)
            if not os.path.exists(ro):
                syms = ["--redefine-sym", "main=%s_main" % t]
                # tool-local globals/functions that clash between tools are static in the repo except
                # a few callbacks in zck_dl.c; prefix every defined global of the tool
                nm = sh(["nm", "--defined-only", "-g", o]).stdout.split("\n")
                for line in nm:
                    parts = line.split()
                    if len(parts) == 3 and parts[2] != "main" and not parts[2].startswith("__"):
                        syms += ["--redefine-sym", "%s=%s__%s" % (parts[2], t, parts[2])]
                sh(["objcopy"] + syms + [o, ro + ".tmp"])
                os.replace(ro + ".tmp", ro)
            link.append(ro)
        else:
            link.append(o)
    lkey = hashlib.sha256((" ".join(sorted(link)) + " ".join(san)).encode()).hexdigest()
    # the binary's name carries the key of what it was linked from, so runs against different source trees (selftest,
    # seeded-change evaluation) can never pick up each other's driver
    exe = os.path.join(vdir, "drv-" + lkey[:16])
    stamp = exe + ".stamp"
    if not (os.path.exists(exe) and os.path.exists(stamp) and open(stamp).read() == lkey):
        wrap = ["-Wl,--wrap=" + w for w in WRAPS]
        libs = ["-lzstd", "-lcrypto", "-lcurl", "-lpthread", "-lm"]
        r = subprocess.run([cc] + san + link + wrap + libs + ["-o", exe + ".tmp"], stdout=subprocess.PIPE,
                           stderr=subprocess.PIPE, text=True)
        if r.returncode != 0:
            raise RuntimeError("link failed (%s):\n%s" % (name, r.stderr[-4000:]))
        os.replace(exe + ".tmp", exe)
        open(stamp, "w").write(lkey)
        # keep the eight most recent binaries of this variant
        olds = sorted(glob.glob(os.path.join(vdir, "drv-*[0-9a-f]")), key=os.path.getmtime, reverse=True)
        for o in olds[8:]:
            for f in (o, o + ".stamp"):
                try:
                    os.unlink(f)
                except OSError:
                    pass
    else:
        os.utime(exe, None)
    return exe


def unowned_symbols(variant="asan"):
    """OS-facing undefined symbols of the repo's library objects that are neither wrapped nor on the reviewed list"""
    cc, san, openssl = VARIANTS[variant]
    objdir = os.path.join(BUILD, "obj")
    res = set()
    # recompute object names cheaply by re-running compile_one (cache hit)
    vdir = os.path.join(BUILD, variant)
    zck_h = open(os.path.join(REPO, "include/zck.h.in")).read().replace("@version@", repo_version())
    incdir = os.path.join(vdir, "include-" + hashlib.sha256(zck_h.encode()).hexdigest()[:12])
    hdig = header_digest() + hashlib.sha256(zck_h.encode()).hexdigest()
    defs = meson_defines(openssl) + ["-D" + GUARD, "-std=gnu11", "-w"]
    inc = ["-I", incdir, "-I", os.path.join(REPO, "src/lib"), "-I", os.path.join(REPO, "src"),
           "-I", "/usr/include/x86_64-linux-gnu"]
    objs = [compile_one(cc, s, san + defs + inc, objdir, hdig) for s in lib_sources(openssl)]
    defined = set()
    undefined = set()
    for o in objs:
        for line in sh(["nm", o]).stdout.split("\n"):
            p = line.split()
            if len(p) == 2 and p[0] == "U":
                undefined.add(p[1])
            elif len(p) == 3:
                defined.add(p[2])
    for s in undefined - defined:
        if s in WRAPS or s in DETERMINISTIC or s.startswith(DETERMINISTIC_PREFIXES):
            continue
        res.add(s)
    return sorted(res)


_built = {}


def driver(variant="asan"):
    if variant not in _built:
        lock = os.path.join(BUILD, ".lock-" + variant)
        os.makedirs(BUILD, exist_ok=True)
        import fcntl
        with open(lock, "w") as lf:
            fcntl.flock(lf, fcntl.LOCK_EX)
            _built[variant] = build_variant(variant)
    return _built[variant]


if __name__ == "__main__":
    t = time.time()
    for v in (sys.argv[1:] or ["asan"]):
        print(v, build_variant(v), "%.1fs" % (time.time() - t))
    print("unowned:", unowned_symbols())
