#!/bin/bash
# usage: seedverify.sh <ID> [demo args...]   - independent confirmation of a sub-agent's seeded change in its scratch worktree:
#   (1) the repository's own tests pass with the change, (2) the demonstration fails with it, (3) passes without it.
id=$1; shift
wt=${SEED_WT_PREFIX:-/tmp/seed-}$id; out=${SEED_OUT:-/tmp/seedout}/$id
cd $wt || exit 2
git diff --quiet && { echo "$id: worktree has no change"; exit 2; }
meson compile -C _build >/dev/null 2>&1 || { echo "$id: build with change FAILED"; exit 2; }
t=$(meson test -C _build 2>&1 | grep -E "^(Ok|Expected Fail|Fail|Unexpected Pass|Timeout):" | tr -s ' ' | tr '\n' ' ')
echo "$id tests with change: $t"
if [ -f $out/demo.c ] && [ ! -f $out/demo.sh ]; then
  gcc -Wall -O1 -rdynamic -I$wt/_build/include $out/demo.c -o $out/demo.bin -L$wt/_build/src/lib -lzck -lpthread -lcrypto -lzstd -Wl,-rpath,$wt/_build/src/lib 2>/dev/null || { echo "$id: demo does not compile"; exit 2; }
  run="$out/demo.bin $*"
else
  run="bash $out/demo.sh $*"
fi
( cd $out && timeout 300 $run >/dev/null 2>&1 ); a=$?
git diff > $out/.cur.diff && git apply -R $out/.cur.diff && meson compile -C _build >/dev/null 2>&1
( cd $out && timeout 300 $run >/dev/null 2>&1 ); b=$?
git apply $out/.cur.diff && meson compile -C _build >/dev/null 2>&1
echo "$id demo exit with change: $a   without change: $b"
