"""Loopback HTTP/1.1 range server for the real zckdl tool (C04 thorough tier).  RFC 7233 behaviour: one satisfiable range
-> 206 with Content-Range; several -> 206 multipart/byteranges; more ranges than the server is willing to serve -> the
Range header is ignored and the whole file is sent with 200 (what Apache/nginx do), which is what makes zckdl back off.
Paths: /m<max>/<name> serves file <name> with at most <max> ranges per request.  Every request is logged."""
import threading, socket
from http.server import BaseHTTPRequestHandler, ThreadingHTTPServer


class Handler(BaseHTTPRequestHandler):
    protocol_version = "HTTP/1.1"

    def log_message(self, *a):
        pass

    def do_GET(self):
        srv = self.server
        parts = self.path.strip("/").split("/")
        maxr = 1 << 30
        if len(parts) == 2 and parts[0].startswith("m"):
            maxr = int(parts[0][1:])
            name = parts[1]
        else:
            name = parts[-1]
        data = srv.files.get(name)
        if data is None:
            self.send_response(404); self.send_header("Content-Length", "0"); self.end_headers()
            return
        rh = self.headers.get("Range")
        ranges = None
        if rh and rh.startswith("bytes="):
            ranges = []
            for item in rh[6:].split(","):
                a, _, z = item.strip().partition("-")
                try:
                    a, z = int(a), (int(z) if z else len(data) - 1)
                except ValueError:
                    ranges = None
                    break
                if a > z or a >= len(data):
                    ranges = "unsatisfiable"
                    break
                ranges.append((a, min(z, len(data) - 1)))
        with srv.lock:
            srv.log.append((self.path, rh, None))
            self.log_idx = (srv.epoch, len(srv.log) - 1)      # requests of several connections are in flight at once: mark by index
        if ranges == "unsatisfiable":
            self.send_response(416); self.send_header("Content-Range", "bytes */%d" % len(data)); self.send_header("Content-Length", "0"); self.end_headers()
            srv.mark(416, self.log_idx)
            return
        if not ranges or len(ranges) > maxr:
            self.send_response(200); self.send_header("Content-Length", str(len(data))); self.send_header("Accept-Ranges", "bytes"); self.end_headers()
            srv.mark(200, self.log_idx)
            try:
                self.wfile.write(data)
            except (BrokenPipeError, ConnectionResetError):
                pass
            return
        if len(ranges) == 1:
            a, z = ranges[0]
            body = data[a:z + 1]
            self.send_response(206)
            self.send_header("Content-Range", "bytes %d-%d/%d" % (a, z, len(data)))
            self.send_header("Content-Length", str(len(body))); self.send_header("Accept-Ranges", "bytes"); self.end_headers()
            srv.mark(206, self.log_idx)
            self.wfile.write(body)
            return
        bd = "vf7c1e5b2a9d04"
        body = bytearray()
        for a, z in ranges:
            body += ("\r\n--%s\r\nContent-Type: application/octet-stream\r\nContent-Range: bytes %d-%d/%d\r\n\r\n" % (bd, a, z, len(data))).encode()
            body += data[a:z + 1]
        body += ("\r\n--%s--\r\n" % bd).encode()
        self.send_response(206)
        self.send_header("Content-Type", "multipart/byteranges; boundary=%s" % bd)
        self.send_header("Content-Length", str(len(body))); self.send_header("Accept-Ranges", "bytes"); self.end_headers()
        srv.mark(206, self.log_idx)
        self.wfile.write(bytes(body))


class Server(ThreadingHTTPServer):
    daemon_threads = True

    def __init__(self):
        super().__init__(("127.0.0.1", 0), Handler)
        self.files = {}
        self.log = []
        self.epoch = 0
        self.lock = threading.Lock()
        self.port = self.server_address[1]
        self.thread = threading.Thread(target=self.serve_forever, daemon=True)
        self.thread.start()

    def handle_error(self, request, client_address):
        # a client that exits in the middle of a transfer (zckdl after an error) resets the connection: not the server's problem
        import sys
        if isinstance(sys.exc_info()[1], (ConnectionResetError, BrokenPipeError, ConnectionAbortedError)):
            return
        super().handle_error(request, client_address)

    def mark(self, code, idx):
        with self.lock:
            epoch, i = idx
            if epoch != self.epoch or i >= len(self.log):
                return          # the log was taken in the meantime (a straggler of an earlier run)
            p, r, _ = self.log[i]
            self.log[i] = (p, r, code)

    def take_log(self):
        with self.lock:
            l = self.log
            self.log = []
            self.epoch += 1
        return l

    def stop(self):
        self.shutdown()
        self.server_close()
