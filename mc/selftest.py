"""./vf selftest [name...]: show that the checks can fail.

For every kept seeded change under seeded/<name>/ (patch.diff + meta.json) a scratch worktree of /repo is created outside
/repo and /verif, the patch is applied there, the repository's own test suite is run on it (it must still pass - that is
what makes the change interesting), and every check listed in meta.json["caught_by"] is run against the scratch tree
(VERIF_REPO).  The check must report a VIOLATION (exit 1); evidence and replay files of these runs go to build/selftest
so the committed evidence is not disturbed.  The worktree and its build output are removed afterwards."""
import json, os, subprocess, sys, shutil, tempfile
import build

VERIF = build.VERIF


def run(names):
    sd = os.path.join(VERIF, "seeded")
    all_names = sorted(d for d in os.listdir(sd) if os.path.exists(os.path.join(sd, d, "patch.diff"))) if os.path.isdir(sd) else []
    names = names or all_names
    bad = 0
    for name in names:
        meta = json.load(open(os.path.join(sd, name, "meta.json")))
        base = "/dev/shm" if os.path.isdir("/dev/shm") else tempfile.gettempdir()
        wt = tempfile.mkdtemp(prefix="vf-selftest-", dir=base)
        os.rmdir(wt)
        try:
            subprocess.run(["git", "-C", build.REPO, "worktree", "add", "-q", "--detach", wt, "HEAD"], check=True)
            r = subprocess.run(["git", "-C", wt, "apply", os.path.join(sd, name, "patch.diff")], stderr=subprocess.PIPE, text=True)
            if r.returncode != 0:
                print("selftest %s: patch does not apply: %s" % (name, r.stderr.strip()))
                bad += 1
                continue
            env = dict(os.environ, VERIF_REPO=wt, VERIF_EVIDENCE_DIR="build/selftest/evidence", VERIF_REPLAY_DIR="build/selftest/replays")
            if os.environ.get("VF_SELFTEST_SKIP_SUITE") != "1":
                b = subprocess.run([os.path.join(VERIF, "vf"), "baseline"], env=env, stdout=subprocess.PIPE, text=True)
                suite = "suite passes" if b.returncode == 0 else "SUITE FAILS (%s)" % b.stdout.strip().split("\n")[-1]
            else:
                suite = "suite not run"
            for chk in meta.get("caught_by", []):
                c = subprocess.run([os.path.join(VERIF, "vf"), "check", chk, "--tier", meta.get("tier", "quick")], env=env, stdout=subprocess.PIPE,
                                   stderr=subprocess.STDOUT, text=True)
                viol = [l for l in c.stdout.split("\n") if l.startswith("VIOLATION")]
                ok = c.returncode == 1 and viol
                print("selftest %-28s %s: %s (%s, exit %d, %d VIOLATION lines)" % (name, chk, "DETECTED" if ok else "MISSED", suite, c.returncode, len(viol)))
                if not ok:
                    bad += 1
            for chk in meta.get("missed_by", []):
                print("selftest %-28s %s: recorded as not detected (see meta.json)" % (name, chk))
        finally:
            subprocess.run(["git", "-C", build.REPO, "worktree", "remove", "--force", wt], stdout=subprocess.DEVNULL, stderr=subprocess.DEVNULL)
            shutil.rmtree(wt, ignore_errors=True)
    return 1 if bad else 0
