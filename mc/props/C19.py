"""C19 - independent contexts do not interfere when used from different threads.

Pass 1 - exhaustive schedules.  T = 2 threads (thorough also 3), each running one scenario on its own contexts and files:
COPY (two chunks; the threads' sources hold DIFFERENT bytes of EQUAL length, so that any shared scratch memory collides),
WRITE, READ, VALIDATE, FEED (download callbacks); all pairs of scenarios.  Scheduling points are the wrapped system
calls plus thread start/exit (context set-up happens before the scheduled region).  ALL schedules with <= 2 preemptions
(thorough: 4 for two threads, 2 for three) are executed under the cooperative scheduler, each in a fresh process; no state-hash pruning because the
memory of interest is hidden from the harness.  Oracle: each thread's return values, flags, output file and read
results equal those of the same body run alone.
Pass 2 - races the scheduler cannot see: the same bodies free-running under the ThreadSanitizer build (scheduler off,
start barrier, repetitions); a report whose stack has a frame in the repository is a violation.  This pass is the
prescribed companion of the scheduler, not the decider for interleavings.
"""
import itertools
import core, zckref, universe, httpsim

SCENS = ["copy", "write", "read", "validate", "feed", "feedmp", "life", "writez", "misc", "nowrite", "writefail", "bigrange"]
_big = {}


def bigrange_file(t, seed):
    """on-disk state with 6400 (thread 1: 7000) one-byte chunks, every other one damaged: the rendered request of about 38 KB
    (thread 1: 42 KB) outgrows the renderer's 32 KiB initial buffer - by a different amount per thread"""
    if (t, seed) not in _big:
        n = 6400 + 600 * t
        pcs = [bytes([1 + (i * 7 + t) % 250]) for i in range(n)]
        f, h, body = zckref.build_file(pcs, comp=0, htype=1, ctype=3)
        p = zckref.parse(f)
        x = bytearray(f)
        for i, (off, ln) in enumerate(zckref.extents(p)):
            if ln and i % 2 == 0:
                x[off] = 0
        _big[(t, seed)] = bytes(x)
    return _big[(t, seed)]


def thread_data(t, seed):
    blk = core.blocks(seed)
    x = lambda b: bytes(c ^ (0x11 * t) for c in b)
    pieces = [x(blk["a"]), x(blk["b"])]
    fn, hn, bodyn = zckref.build_file(pieces, comp=0, htype=1, ctype=3)
    fz, hz, bodyz = zckref.build_file(pieces, comp=2, htype=1, ctype=3)
    pn = zckref.parse(fn)
    # three chunks, the middle one already in the target: the request has two ranges, the answer is multipart/byteranges
    p3 = [x(blk["a"]), x(blk["c"]), x(blk["b"])]
    f3, h3, body3 = zckref.build_file(p3, comp=0, htype=1, ctype=3)
    q3 = zckref.parse(f3)
    ext = zckref.extents(q3)
    t0 = bytearray(b"\xaa" * len(f3)); t0[:q3.header_len] = f3[:q3.header_len]
    off, ln = ext[2]; t0[off:off + ln] = f3[off:off + ln]
    rngs = [(ext[1][0], ext[1][0] + ext[1][1] - 1), (ext[3][0], ext[3][0] + ext[3][1] - 1)]
    hdr, mbody, layout = httpsim.multipart(f3, rngs, httpsim.Style(boundary="b+(%d).x?%s" % (t, "7" * (3 + 5 * t))))   # legal boundary characters that are regex metacharacters: the escaping path runs, differently per thread
    ctype = [l for l in hdr if l.lower().startswith(b"content-type")][0]
    dct = x(universe.DELTA_DICT)
    fzd, hzd, bzd = zckref.build_file(pieces + [x(blk["d"])], comp=2, htype=2, ctype=0, dict_=dct)
    return {"pieces": pieces, "none": fn, "zstd": fz, "body": fn[pn.header_len:], "content": b"".join(pieces),
            "mp_target": bytes(t0), "mp_body": mbody, "mp_ctype": ctype, "dict": dct, "zstd_dict": fzd}


def spec_line(slot, scen, d):
    if scen == "copy":
        return "thread %d scen=copy a=%s b=%s" % (slot, d["none"].hex(), d["none"].hex())
    if scen == "write":
        return "thread %d scen=write a=%s" % (slot, d["content"].hex())
    if scen == "read":
        return "thread %d scen=read a=%s" % (slot, d["zstd"].hex())
    if scen == "validate":
        f = bytearray(d["none"])
        if slot == 1:
            f[-3] ^= 1     # one thread validates a damaged file, the other an intact one
        return "thread %d scen=validate a=%s" % (slot, bytes(f).hex())
    if scen == "feed":
        return "thread %d scen=feed b=%s a=%s" % (slot, d["none"].hex(), d["body"].hex())
    if scen == "feedmp":
        return "thread %d scen=feedmp b=%s a=%s c=%s" % (slot, d["mp_target"].hex(), d["mp_body"].hex(), d["mp_ctype"].hex())
    if scen == "life":
        return "thread %d scen=life a=%s" % (slot, d["zstd_dict"].hex())
    if scen == "writez":
        return "thread %d scen=writez a=%s c=%s" % (slot, (d["content"] * 3).hex(), d["dict"].hex())
    if scen == "writefail":
        return "thread %d scen=writefail a=%s" % (slot, core.prng_bytes(2048, 40 + slot).hex())
    if scen == "nowrite":
        return "thread %d scen=nowrite a=%s" % (slot, (d["content"] * 2).hex())
    if scen == "bigrange":
        return "thread %d scen=bigrange a=%s" % (slot, bigrange_file(slot, 0).hex())
    if scen == "misc":
        return "thread %d scen=misc a=%s b=%s" % (slot, d["zstd"].hex(), d["none"].hex())
    raise ValueError(scen)


def work(arg):
    combo, bound, seed, maxexec = arg
    job = [spec_line(i, s, thread_data(i, seed)) for i, s in enumerate(combo)]
    job.append("explore threads=%s bound=%d maxexec=%d" % (",".join(str(i) for i in range(len(combo))), bound, maxexec))
    cs = core.drv("sched", "\n".join(job) + "\n", timeout=7200)
    c = cs[0]
    return combo, c.first("E"), c.all("B"), c.status(), c.done


def work_free(arg):
    combo, seed, reps = arg[:3]
    variant = arg[3] if len(arg) > 3 else "tsan"
    job = [spec_line(i, s, thread_data(i, seed)) for i, s in enumerate(combo)]
    job.append("free threads=%s reps=%d" % (",".join(str(i) for i in range(len(combo))), reps))
    cs = core.drv("sched", "\n".join(job) + "\n", variant=variant, timeout=7200)
    c = cs[0]
    return combo, c.first("R"), c.status(), c.x


def run(ctx):
    thorough = ctx.tier == "thorough"
    bound = 4 if thorough else 2
    combos = list(itertools.combinations_with_replacement(SCENS, 2))
    jobs = [(c, bound, ctx.seed, 0) for c in combos]
    if thorough:
        jobs += [(c, 2, ctx.seed, 0) for c in [("copy", "copy", "copy"), ("copy", "feed", "validate"), ("write", "read", "copy"), ("feed", "feed", "write")]]
    ctx.bounds = {"threads": "2" + (" and 3" if thorough else ""), "preemption_bound": bound, "scenario_pairs": len(combos),
                  "scheduling_points": "every wrapped system call, thread start and exit"}
    ctx.rule = ("state = one complete schedule executed in a fresh process; transitions = scheduling points passed; non-trivial = schedules "
                "with at least one preemption")
    per = {}
    for combo, e, bads, status, done in core.pmap(work, jobs):
        name = "+".join(combo)
        case = {"combo": list(combo), "bound": bound if len(combo) == 2 else 2}
        if not done or e is None:
            ctx.violation({"check": "C19", "predicate": "explorer-crash", "combo": name}, "%s: %s" % (name, status), case)
            continue
        execs = int(e["execs"])
        ctx.states += execs; ctx.evaluations += execs; ctx.transitions += execs * int(e["maxpoints"]); ctx.nontrivial += max(0, execs - 1)
        ctx.outcomes.add((name, e["distinct"]))
        per[name] = {"schedules": execs, "max_points": int(e["maxpoints"]), "distinct_observations": int(e["distinct"]), "complete": e["complete"] == "1"}
        if e["complete"] != "1":
            ctx.cap("%s: execution cap reached" % name)
        if int(e["bad"]) > 0:
            b = bads[0] if bads else {}
            ctx.violation({"check": "C19", "predicate": "result-differs-from-serial-run", "scenario": combo[int(b.get("thread", 0))] if b else "?"},
                          "%s: %s of %d schedules (<= %d preemptions) give thread %s a result different from running alone; schedule %s: observed %s, alone %s" % (
                              name, e["bad"], execs, case["bound"], b.get("thread"), b.get("sched"), b.get("obs"), b.get("alone")), case)
    ctx.extra["per_pair"] = per
    # pass 2: free-running under ThreadSanitizer
    reps = 30 if thorough else 10
    races = 0
    import os
    # both checksum backends: the bundled SHA code is library-owned memory too (thread data uses SHA-1, SHA-256, SHA-512 and SHA-512/128)
    free_jobs = [] if os.environ.get("VERIF_COV") else [(c, ctx.seed, reps, v) for v in ("tsan", "tsan-bundled") for c in combos]   # ./vf coverage has no tsan variant
    for (combo, r, status, x), fj in zip(core.pmap(work_free, free_jobs), free_jobs):
        name = "+".join(combo) + ("" if fj[3] == "tsan" else " (bundled checksum backend)")
        if r is None and status.get("exit") == 3 and "ThreadSanitizer" not in status["san"]:
            raise core.HarnessError("driver gave up in the free-running pass of %s: %s" % (name, status))
        ctx.evaluations += reps
        san = status["san"]
        if "ThreadSanitizer" in san or (x or {}).get("exit") == "98":
            races += 1
            site = ""
            for ln in san.split("\n"):
                if "/src/lib/" in ln:
                    site = ln.split("/src/lib/")[-1].split(" ")[0].split(":")[0]
                    break
            ctx.violation({"check": "C19", "predicate": "data-race", "site": site},
                          "%s free-running under ThreadSanitizer: %s" % (name, san[:600]), {"combo": list(combo), "free": True, "reps": reps, "variant": fj[3]})
        elif r is None:
            ctx.violation({"check": "C19", "predicate": "crash-in-free-running-pass", "combo": name}, "%s: %s" % (name, status), {"combo": list(combo), "free": True, "reps": reps})
    ctx.extra["tsan_pass"] = {"pairs": len(combos), "backends": ["openssl", "bundled"], "repetitions": reps, "pairs_with_reports": races}
    ctx.sample({"threads": ["copy", "copy"], "schedule": "thread 0 up to its write, thread 1 up to its write, thread 0 continues (2 preemptions)",
                "expect": "both targets identical to their serial results"})


def replay(case, quiet=True):
    import os
    seed = int(os.environ.get("VERIF_SEED", "0") or 0)
    if case.get("free"):
        combo, r, status, x = work_free((tuple(case["combo"]), seed, case["reps"] * 3, case.get("variant", "tsan")))
        return {"violated": "ThreadSanitizer" in status["san"] or r is None, "detail": status["san"][:300]}
    combo, e, bads, status, done = work((tuple(case["combo"]), case["bound"], seed, 0))
    return {"violated": (not done) or e is None or int(e["bad"]) > 0, "detail": bads[:1]}
