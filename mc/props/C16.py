"""C16 - chunking is deterministic, content-defined and local.

Space: contents G(kind, 40 000) with ZCK_CHUNK_MAX = 9000 (chunks of 8-9 KB, so several chunks stay cheap) and (thorough)
G(kind, 300 000) with the defaults; x {none, zstd, zstd + dictionary}.  Segmentation independence: the content
delivered whole vs with EVERY single cut position, every pair of cuts inside the +-49-byte neighbourhoods of the chunk
boundaries (the rolling-hash window is 48 bytes), and k-byte schedules; two runs in one process and in two processes.
Locality: edits {replace one byte, insert one byte, delete one byte, insert 100 bytes} at every 257th position and at
every position within +-49 bytes of every chunk boundary.
Oracle: output files byte-identical across segmentations and runs; for an edit at byte p every chunk of the original
that ends strictly before p appears with identical digest, stored size and size at the same index; from the first
common chunk start in the shared suffix onwards all chunks are identical; every automatic chunk but the last has a size
within the effective minimum and maximum.
"""
import itertools
import core, zckref, universe
from props.C01 import gen

D = universe.DELTA_DICT
AVG = 32768


def cfglines(thorough):
    out = [("none max=9000", "cfg comp=0 manual=0 max=9000", 1, 9000), ("zstd max=9000", "cfg comp=2 manual=0 max=9000", 1, 9000),
           # a dictionary in front of the data and minimum = maximum: every chunk but the last has exactly that size,
           # whatever was written before the first data chunk
           ("none+dict min=max=8500", "cfg comp=0 dict=%s manual=0 max=8500 min=8500" % D.hex(), 8500, 8500)]
    if thorough:
        out.append(("zstd+dict max=9000", "cfg comp=2 dict=%s manual=0 max=9000" % D.hex(), 1, 9000))
    return out


def write_batch(arg):
    """arg: (cfgline, content, [ops], want_meta) -> list of (file id, meta dict or None, status)"""
    cfgline, content, opsl, meta = arg
    job = [cfgline, "content %s" % content.hex(), "read -", "meta %d" % (1 if meta else 0), "timeout 60000", "chunk 8"] + ["hist %s" % o for o in opsl]
    cs = core.drv("writehist", "\n".join(job) + "\n", timeout=3000)
    out = []
    for c in cs:
        w = c.first("W")
        ok = c.done and w is not None and w.get("close") == "1" and w.get("fail") == "0"
        if ok and "accepted" in w:      # a call of the "refuse" battery was accepted: it is configuration then, no claim
            out.append((None, None, None))
            continue
        out.append((w["file"] if ok else None, c.first("M") if ok else None, (c.status(), w) if not ok else None))
    return out


def chunk_table(m):
    """from an M record: [(digest, stored size, size)] of the data chunks, and their content offsets"""
    rows = []
    for item in m["chunks"].split(","):
        num, d, ud, start, clen, ulen, valid = item.split(":")
        rows.append((d, int(clen), int(ulen)))
    rows = rows[1:]   # dictionary entry
    offs = []
    o = 0
    for d, cl, ul in rows:
        offs.append(o)
        o += ul
    return rows, offs


def bounds_ok(rows, cmin, cmax):
    effmax = min(AVG * 4, cmax)
    if cmin > effmax:
        effmax = cmin          # a configured minimum above the automatic maximum becomes the forced chunk size
    effmin = min(max(AVG // 4, cmin), effmax)
    for d, cl, ul in rows[:-1]:
        if ul > effmax:
            return "chunk-larger-than-maximum", "%d > %d" % (ul, effmax)
        if ul < effmin:
            return "chunk-smaller-than-minimum", "%d < %d" % (ul, effmin)
    return None


def edits(n, boundaries, thorough):
    pos = set(range(0, n, 257)) | {n - 1}
    for b in boundaries:
        pos |= {p for p in range(b - 49, b + 50) if 0 <= p < n}
    out = []
    for p in sorted(pos):
        out.append(("replace", p))
        out.append(("insert1", p))
        out.append(("delete1", p))
        if thorough or p % 3 == 0:
            out.append(("insert100", p))
    return out


def apply_edit(content, kind, p):
    """-> (edited content, first differing offset, offset in original where the shared suffix starts, delta)"""
    if kind == "replace":
        return content[:p] + bytes([content[p] ^ 0x55]) + content[p + 1:], p, p + 1, 0
    if kind == "insert1":
        return content[:p] + bytes([content[p] ^ 0x2A]) + content[p:], p, p, 1
    if kind == "delete1":
        return content[:p] + content[p + 1:], p, p + 1, -1
    ins = core.prng_bytes(100, p)
    return content[:p] + ins + content[p:], p, p, 100


def judge_edit(rows0, offs0, rows1, offs1, p, suffix0, delta):
    # chunks of the original that end strictly before p keep digest/sizes at the same index
    for i, ((d, cl, ul), o) in enumerate(zip(rows0, offs0)):
        if o + ul < p:
            if i >= len(rows1) or rows1[i] != (d, cl, ul):
                return "chunk-before-edit-changed", "chunk %d of the original (content bytes %d..%d) differs although the edit is at byte %d" % (i + 1, o, o + ul - 1, p)
    # from the first common chunk start in the shared suffix onwards everything is identical
    starts1 = {o: j for j, o in enumerate(offs1)}
    for i, o in enumerate(offs0):
        if o >= suffix0 and (o + delta) in starts1:
            j = starts1[o + delta]
            if rows0[i:] != rows1[j:]:
                return "chunks-after-resynchronisation-differ", "both outputs start a chunk at original offset %d, yet the following chunk lists differ" % o
            break
    return None


def run(ctx):
    thorough = ctx.tier == "thorough"
    kinds = ["rand", "text", "record"] if thorough else ["rand", "text"]
    n = 40000
    ctx.rule = ("case = (content, configuration, write segmentation or edit); non-trivial = single cuts that fall within 49 bytes of a chunk boundary "
                "plus edits within 49 bytes of a boundary")
    ctx.bounds = {"contents": ["%s/%d" % (k, n) for k in kinds], "configurations": [c[0] for c in cfglines(thorough)],
                  "single_cuts": "every position (uncompressed), every 17th position and all boundary neighbourhoods (zstd)",
                  "cut_pairs": "all pairs within each +-49 boundary neighbourhood", "edits": "replace/insert/delete 1 byte, insert 100 bytes at every 257th position and +-49 of every boundary"}
    for kind in kinds:
        content = gen(kind, n, ctx.seed)
        for cname, cline, cmin, cmax in cfglines(thorough):
            if ctx.expired():
                ctx.cap("deadline before %s %s" % (kind, cname))
                continue
            comp = "none" if "comp=0" in cline else "zstd"
            base = write_batch((cline, content, ["W", "W"], True))
            (f0, m0, s0), (f0b, m0b, s0b) = base
            klass = {"check": "C16", "content": kind, "comp": comp}
            if f0 is None:
                ctx.violation(dict(klass, predicate="baseline-write-fails"), "%s %s: %s" % (kind, cname, s0), {"kind": kind, "cline": cline, "ops": "W", "n": n})
                continue
            if f0 != f0b:
                ctx.violation(dict(klass, predicate="two-runs-differ"), "%s %s: the same content written twice gives different files" % (kind, cname),
                              {"kind": kind, "cline": cline, "ops": "W", "n": n, "twice": True})
            # "a function of content and configuration only": option calls the library refuses (unknown types, a minimum above the
            # maximum, zero, values beyond int) with the error cleared afterwards are not part of the configuration
            (fr, mr, sr), = write_batch((cline + " refuse=1", content, ["W"], True))
            ctx.states += 1; ctx.evaluations += 1; ctx.transitions += 12
            if fr is None and sr is not None:
                ctx.violation(dict(klass, predicate="write-fails-after-refused-option-calls"), "%s %s: %s" % (kind, cname, sr), {"kind": kind, "cline": cline, "n": n, "refuse": True})
            elif fr is not None and fr != f0:
                ctx.violation(dict(klass, predicate="refused-option-calls-change-the-output"), "%s %s: the file written after a series of refused option calls "
                              "(each followed by zck_clear_error) differs from the file written without them" % (kind, cname), {"kind": kind, "cline": cline, "n": n, "refuse": True})
            rows0, offs0 = chunk_table(m0)
            boundaries = offs0[1:]
            ctx.extra.setdefault("chunks", {})["%s %s" % (kind, cname)] = len(rows0)
            v = bounds_ok(rows0, cmin, cmax)
            if v:
                ctx.violation(dict(klass, predicate=v[0]), "%s %s: %s" % (kind, cname, v[1]), {"kind": kind, "cline": cline, "ops": "W", "n": n, "bounds": [cmin, cmax]})
            # ---- segmentation independence
            near = sorted({p for b in boundaries for p in range(b - 49, b + 50) if 0 < p < n})
            if comp == "none":
                cuts1 = list(range(1, n)) if thorough else sorted(set(range(1, n, 7)) | set(near))
            else:
                cuts1 = sorted(set(range(1, n, 997 if not thorough else 17)) | set(near))
            opsl = ["w%d,W" % c for c in cuts1]
            pairs = []
            for b in boundaries:
                nb = [p for p in range(b - 49, b + 50) if 0 < p < n]
                step = 1 if (thorough and comp == "none") else (3 if comp == "none" else 7)
                pairs += [(a, c) for a, c in itertools.combinations(nb[::step] if step > 1 else nb, 2)]
            opsl += ["w%d,w%d,W" % (a, c - a) for a, c in pairs]
            for k in (1, 2, 3, 7, 48, 49, 4095, 4096, 4097, 8191, 8192, 8193, 32767, 32768, 32769):
                if k == 1 and comp != "none" and not thorough:
                    continue
                opsl.append(",".join(["w%d" % k] * (n // k) + ["W"]))
            nearset = set(near)
            res = []
            for part in core.pmap(write_batch, [(cline, content, ch, False) for ch in core.chunks(opsl, 60)]):
                res += part
            for ops, (f, m, st) in zip(opsl, res):
                ctx.states += 1; ctx.evaluations += 1; ctx.transitions += ops.count(",") + 1
                first = int(ops.split(",")[0][1:]) if ops.count(",") <= 2 else -1
                if first in nearset:
                    ctx.nontrivial += 1
                ctx.outcomes.add(f == f0)
                if f != f0:
                    seg = "single-cut" if ops.count(",") == 1 else ("two-cuts" if ops.count(",") == 2 else "k-byte-pieces")
                    ctx.violation(dict(klass, predicate="output-depends-on-write-segmentation", segmentation=seg),
                                  "%s %s: writing with %s gives %s instead of the file written in one call" % (
                                      kind, cname, ops[:60], "an error (%s)" % st if f is None else "a different file"),
                                  {"kind": kind, "cline": cline, "ops": ops if len(ops) < 4000 else None, "kpiece": int(ops.split(",")[0][1:]), "n": n})
            # ---- a second process
            (f1, m1, s1), = write_batch((cline, content, ["W"], False))
            if f1 != f0:
                ctx.violation(dict(klass, predicate="two-runs-differ"), "%s %s: a second process produced a different file" % (kind, cname),
                              {"kind": kind, "cline": cline, "ops": "W", "n": n, "twice": True})
            # ---- locality of edits
            ed = edits(n, boundaries, thorough)
            if comp != "none" and not thorough:
                ed = ed[::5]
            jobs = []
            for ch in core.chunks(ed, 40):
                jobs.append((cline, [(k, p) for k, p in ch], content))
            for part, ch in zip(core.pmap(edit_batch, jobs), core.chunks(ed, 40)):
                for (kind_e, p), (f, m, st) in zip(ch, part):
                    ctx.states += 1; ctx.evaluations += 1; ctx.transitions += 1
                    if any(abs(p - b) <= 49 for b in boundaries):
                        ctx.nontrivial += 1
                    case = {"kind": kind, "cline": cline, "n": n, "edit": [kind_e, p], "minmax": [cmin, cmax]}
                    if f is None:
                        ctx.violation(dict(klass, predicate="write-of-edited-content-fails"), "%s %s edit %s@%d: %s" % (kind, cname, kind_e, p, st), case)
                        continue
                    rows1, offs1 = chunk_table(m)
                    e2, pp, suffix0, delta = apply_edit(content, kind_e, p)
                    v = judge_edit(rows0, offs0, rows1, offs1, pp, suffix0, delta) or bounds_ok(rows1, cmin, cmax)
                    if v:
                        where = "near-boundary" if any(abs(p - b) <= 49 for b in boundaries) else "inside-chunk"
                        ctx.violation(dict(klass, predicate=v[0], edit=kind_e, where=where), "%s %s edit %s at byte %d: %s" % (kind, cname, kind_e, p, v[1]), case)
    if not ctx.expired():
        hit_window_sweep(ctx)
    if not ctx.expired():
        short_chunk_then_suffix(ctx)
    if not ctx.expired():
        big_default(ctx, thorough)
    ctx.sample({"content": "text/40000", "config": "none max=9000", "ops": "w8191,w3,W", "expect": "file identical to the one written with a single call"})
    ctx.sample({"content": "rand/40000", "edit": "insert1 at byte 17999", "expect": "chunks ending before byte 17999 unchanged; identical chunk lists after the first common chunk start"})


def edit_batch(arg):
    cline, eds, content = arg
    job = [cline, "read -", "meta 1", "timeout 60000", "chunk 8"]
    for k, p in eds:
        job += ["content %s" % apply_edit(content, k, p)[0].hex(), "hist W"]
    cs = core.drv("writehist", "\n".join(job) + "\n", timeout=3000)
    out = []
    for c in cs:
        w = c.first("W")
        ok = c.done and w is not None and w.get("close") == "1" and w.get("fail") == "0"
        out.append((w["file"] if ok else None, c.first("M") if ok else None, c.status() if not ok else None))
    return out


def hit_windows(ctx, want=3):
    """48-byte windows at which the library itself ended a chunk because of the rolling hash (not because of the maximum):
    the hash is a function of the window alone, so placing such a window anywhere reproduces the hit there"""
    content = gen("rand", 300000, ctx.seed)
    (f0, m0, s0), = write_batch(("cfg comp=0 manual=0", content, ["W"], True))
    if f0 is None:
        return []
    rows, offs = chunk_table(m0)
    out = []
    for (d, cl, ul), o in list(zip(rows, offs))[:-1]:
        # the writer hashes byte i and, on a hit, ends the chunk in front of it: the hitting window is the last 47 bytes of
        # the chunk plus the first byte of the next one
        if ul < AVG * 4 and o + ul >= 47:
            out.append(content[o + ul - 47:o + ul + 1])
    return out[:want]


def sweep_content(w, e, tail=20000):
    return bytes(e - 47) + w + bytes(tail)        # the window's last byte is byte e: a chunk of e bytes would end there


def sweep_batch(arg):
    cline, w, ends = arg
    job = [cline, "read -", "meta 1", "timeout 60000", "chunk 8"]
    for e in ends:
        # ... written in one call, and with the 80 bytes around the hit delivered one byte per call (a writer that treats
        # small writes below the minimum specially sees the window in pieces)
        job += ["content %s" % sweep_content(w, e).hex(), "hist W", "hist w%d,%s,W" % (max(1, e - 60), ",".join(["w1"] * 80))]
    cs = core.drv("writehist", "\n".join(job) + "\n", timeout=3000)
    out = []
    for c, c2 in zip(cs[0::2], cs[1::2]):
        wr = c.first("W")
        ok = c.done and wr is not None and wr.get("close") == "1" and wr.get("fail") == "0"
        w2 = c2.first("W")
        ok2 = c2.done and w2 is not None and w2.get("close") == "1" and w2.get("fail") == "0"
        same = ok and ok2 and wr["file"] == w2["file"]
        out.append((c.first("M") if ok else None, c.status() if not ok else None, same))
    return out


def hit_window_sweep(ctx):
    """a rolling-hash hit placed at every offset around the effective minimum and maximum: every automatic chunk but the
    last must still respect both"""
    ws = hit_windows(ctx)
    ctx.extra["hit_windows"] = len(ws)
    cfgs = [("none default", "cfg comp=0 manual=0", 1, 10485760), ("none min=9000 max=20000", "cfg comp=0 manual=0 max=20000 min=9000", 9000, 20000),
            ("none max=12000", "cfg comp=0 manual=0 max=12000", 1, 12000)]
    honoured = 0
    for wi, w in enumerate(ws):
        for cname, cline, cmin, cmax in cfgs:
            effmax = min(AVG * 4, cmax)
            effmin = min(max(AVG // 4, cmin), effmax)
            ends = list(range(effmin - 50, effmin + 51))
            if effmax < 40000:
                ends += list(range(effmax - 50, effmax + 51))
            jobs = [(cline, w, ch) for ch in core.chunks(ends, 26)]
            for part, ch in zip(core.pmap(sweep_batch, jobs), core.chunks(ends, 26)):
                for e, (m, st, same) in zip(ch, part):
                    ctx.states += 2; ctx.evaluations += 2; ctx.transitions += 83
                    if m is not None and not same:
                        ctx.violation({"check": "C16", "content": "hit-window", "comp": "none", "predicate": "segmentation-changes-output", "segmentation": "one-byte-burst"},
                                      "rolling-hash hit placed at offset %d (%s): the file written with the 80 bytes around the hit delivered one byte per call differs "
                                      "from the file written in one call" % (e, cname), {"sweep": True, "burst": True, "w": w.hex(), "end": e, "cline": cline, "bounds": [cmin, cmax], "kind": "rand", "n": 0})
                    case = {"sweep": True, "w": w.hex(), "end": e, "cline": cline, "bounds": [cmin, cmax], "kind": "rand", "n": 0}
                    klass = {"check": "C16", "content": "hit-window", "comp": "none"}
                    if m is None:
                        ctx.violation(dict(klass, predicate="baseline-write-fails"), "hit window %d ending at %d, %s: %s" % (wi, e, cname, st), case)
                        continue
                    rows, offs = chunk_table(m)
                    if rows and rows[0][2] == e:
                        honoured += 1
                        ctx.nontrivial += 1
                    v = bounds_ok(rows, cmin, cmax)
                    if v:
                        ctx.violation(dict(klass, predicate=v[0], where="minimum" if abs(e - effmin) <= 50 else "maximum"),
                                      "rolling-hash hit placed at offset %d (%s): %s" % (e, cname, v[1]), case)
    ctx.extra["hit_window_positions_where_the_first_chunk_ended_at_the_hit"] = honoured
    ctx.bounds["hit_window_sweep"] = "windows taken from the library's own chunk ends, placed to end at every offset within 50 bytes of the effective minimum / maximum"


def short_chunk_then_suffix(ctx):
    """automatic chunking with an explicit end-of-chunk after k header bytes (k below, at and above the 48-byte window):
    whatever the header was, both outputs start a chunk at the first byte of the shared suffix, so all following chunks
    must be identical"""
    # default limits and a suffix long enough for several chunk ends that are decided by the rolling hash (with a small
    # maximum nearly every chunk would be cut by the size limit, whatever the hash says)
    suffix = gen("rand", 300000, ctx.seed)
    cline = "cfg comp=0 manual=0"
    ks = (1, 2, 10, 47, 48, 49, 100)
    heads = {k: [bytes([65 + j]) * k for j in range(3)] + [core.prng_bytes(k, 900 + k)] for k in ks}
    ref = None
    jobs = []
    for k in ks:
        for hi, h in enumerate(heads[k]):
            jobs.append((k, hi, h))
    for (k, hi, h) in jobs:
        (f, m, st), = write_batch((cline, h + suffix, ["w%d,e,W" % k], True))
        ctx.states += 1; ctx.evaluations += 1; ctx.transitions += 3
        case = {"shortchunk": True, "k": k, "head": h.hex(), "kind": "rand", "n": 300000, "cline": cline}
        klass = {"check": "C16", "content": "short-chunk-then-suffix", "comp": "none"}
        if f is None:
            ctx.violation(dict(klass, predicate="baseline-write-fails"), "header of %d bytes, end-chunk, suffix: %s" % (k, st), case)
            continue
        rows, offs = chunk_table(m)
        if not rows or rows[0][2] != k:
            continue      # the explicit end was not honoured as a chunk of its own: no common chunk start is guaranteed
        ctx.nontrivial += 1
        tail = rows[1:]
        if ref is None:
            ref = (tail, k, h)
        elif tail != ref[0]:
            ctx.violation(dict(klass, predicate="chunks-after-resynchronisation-differ", where="after-explicit-end"),
                          "automatic chunking, %d header bytes then end-chunk then the same 300000-byte suffix: the chunks of the suffix differ from "
                          "those after a %d-byte header (%d vs %d chunks)" % (k, ref[1], len(tail), len(ref[0])), dict(case, ref_k=ref[1], ref_head=ref[2].hex()))
    ctx.bounds["short_chunk_then_suffix"] = "header lengths %s x 4 header contents, explicit end-chunk, shared 300000-byte suffix, default limits" % (ks,)


def big_default(ctx, thorough=True):
    """300 000 bytes with the default bounds (chunk ends decided by the rolling hash, not by the size limit): segmentation by
    k-byte pieces and cuts around every boundary; quick tier: one content, uncompressed, every third position"""
    n = 300000
    for kind in (("rand", "text") if thorough else ("rand",)):
        content = gen(kind, n, ctx.seed)
        for cname, cline in ((("none default", "cfg comp=0 manual=0"), ("zstd default", "cfg comp=2 manual=0")) if thorough else (("none default", "cfg comp=0 manual=0"),)):
            (f0, m0, s0), = write_batch((cline, content, ["W"], True))
            if f0 is None:
                ctx.violation({"check": "C16", "predicate": "baseline-write-fails", "content": kind}, "%s/%d %s: %s" % (kind, n, cname, s0), {"kind": kind, "cline": cline, "n": n, "ops": "W"})
                continue
            rows0, offs0 = chunk_table(m0)
            ctx.extra.setdefault("chunks", {})["%s/%d %s" % (kind, n, cname)] = len(rows0)
            v = bounds_ok(rows0, 1, 10485760)
            if v:
                ctx.violation({"check": "C16", "predicate": v[0], "content": kind}, "%s/%d %s: %s" % (kind, n, cname, v[1]), {"kind": kind, "cline": cline, "n": n, "ops": "W"})
            # locality of edits where the boundaries are hash-determined
            if "comp=0" in cline:
                offsets = range(-49, 50) if thorough else (-49, -48, -47, -24, -2, -1, 0, 1, 2, 24, 47, 48, 49)
                ed = [(k, b + d) for b in offs0[1:] for d in offsets for k in ("replace", "insert1", "delete1") if 0 <= b + d < n]
                for part, ch in zip(core.pmap(edit_batch, [(cline, c2, content) for c2 in core.chunks(ed, 20)]), core.chunks(ed, 20)):
                    for (kind_e, p), (f, m, st) in zip(ch, part):
                        ctx.states += 1; ctx.evaluations += 1; ctx.transitions += 1; ctx.nontrivial += 1
                        case = {"kind": kind, "cline": cline, "n": n, "edit": [kind_e, p], "minmax": [1, 10485760]}
                        if f is None:
                            ctx.violation({"check": "C16", "predicate": "write-of-edited-content-fails", "content": kind, "comp": "none"}, "%s/%d %s edit %s@%d: %s" % (kind, n, cname, kind_e, p, st), case)
                            continue
                        rows1, offs1 = chunk_table(m)
                        e2, pp, suffix0, delta = apply_edit(content, kind_e, p)
                        v = judge_edit(rows0, offs0, rows1, offs1, pp, suffix0, delta) or bounds_ok(rows1, 1, 10485760)
                        if v:
                            ctx.violation({"check": "C16", "predicate": v[0], "edit": kind_e, "where": "near-boundary", "content": kind, "comp": "none"},
                                          "%s/%d %s edit %s at byte %d: %s" % (kind, n, cname, kind_e, p, v[1]), case)
            near = sorted({p for b in offs0[1:] for p in range(b - 49, b + 50, (1 if thorough else 3) if "comp=0" in cline else 7) if 0 < p < n})
            opsl = ["w%d,W" % c for c in near] + [",".join(["w%d" % k] * (n // k) + ["W"]) for k in (4096, 8191, 32768, 32769, 100000)]
            res = []
            for part in core.pmap(write_batch, [(cline, content, ch, False) for ch in core.chunks(opsl, 20)]):
                res += part
            for ops, (f, m, st) in zip(opsl, res):
                ctx.states += 1; ctx.evaluations += 1; ctx.transitions += ops.count(",") + 1
                ctx.nontrivial += 1 if ops.count(",") == 1 else 0
                if f != f0:
                    ctx.violation({"check": "C16", "predicate": "output-depends-on-write-segmentation", "content": kind, "comp": "none" if "comp=0" in cline else "zstd",
                                   "segmentation": "single-cut" if ops.count(",") == 1 else "k-byte-pieces"},
                                  "%s/%d %s: writing with %s gives a different file" % (kind, n, cname, ops[:60]),
                                  {"kind": kind, "cline": cline, "ops": ops if len(ops) < 4000 else None, "kpiece": int(ops.split(",")[0][1:]), "n": n})


def replay(case, quiet=True):
    import os
    seed = int(os.environ.get("VERIF_SEED", "0") or 0)
    if case.get("shortchunk"):
        suffix = gen("rand", 300000, seed)
        (f1, m1, s1), = write_batch((case["cline"], bytes.fromhex(case["head"]) + suffix, ["w%d,e,W" % case["k"]], True))
        (f2, m2, s2), = write_batch((case["cline"], bytes.fromhex(case["ref_head"]) + suffix, ["w%d,e,W" % case["ref_k"]], True)) if "ref_k" in case else ((None, None, None),)
        if f1 is None or f2 is None:
            return {"violated": f1 is None, "detail": str(s1)}
        return {"violated": chunk_table(m1)[0][1:] != chunk_table(m2)[0][1:]}
    if case.get("sweep"):
        (m, st, same), = sweep_batch((case["cline"], bytes.fromhex(case["w"]), [case["end"]]))
        if m is None:
            return {"violated": True, "detail": str(st)}
        if case.get("burst"):
            return {"violated": not same}
        v = bounds_ok(chunk_table(m)[0], *case["bounds"])
        return {"violated": bool(v), "detail": v}
    content = gen(case["kind"], case["n"], seed)
    cline = case["cline"]
    (f0, m0, s0), = write_batch((cline, content, ["W"], True))
    if case.get("refuse"):
        (f1, m1, s1), = write_batch((cline + " refuse=1", content, ["W"], False))
        return {"violated": (f1 is None and s1 is not None) or (f1 is not None and f1 != f0), "detail": str(s1)[:300]}
    if case.get("twice"):
        (f1, m1, s1), = write_batch((cline, content, ["W"], False))
        return {"violated": f0 != f1}
    if "edit" in case:
        k, p = case["edit"]
        (f, m, st), = edit_batch((cline, [(k, p)], content))
        if f is None:
            return {"violated": True, "detail": str(st)}
        rows0, offs0 = chunk_table(m0)
        rows1, offs1 = chunk_table(m)
        e2, pp, suffix0, delta = apply_edit(content, k, p)
        v = judge_edit(rows0, offs0, rows1, offs1, pp, suffix0, delta) or bounds_ok(rows1, *case.get("minmax", [1, 10485760]))
        return {"violated": bool(v), "detail": v}
    if "bounds" in case:
        rows0, offs0 = chunk_table(m0)
        return {"violated": bool(bounds_ok(rows0, *case["bounds"]))}
    ops = case["ops"] or ",".join(["w%d" % case["kpiece"]] * (case["n"] // case["kpiece"]) + ["W"])
    (f, m, st), = write_batch((cline, content, [ops], False))
    return {"violated": f != f0, "detail": str(st)}
