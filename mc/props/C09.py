"""C09 - the validity scan classifies every chunk exactly and is side-effect free.

Space (explicit-state over on-disk states): the target's header is B's (words incl. duplicates, +- dictionary, +-
uncompressed-source flag, detached header); every chunk region independently in {correct, zeroed, first-byte bit
flipped, (thorough) last-byte bit flipped}; every truncation length of the all-correct body and of the body whose first
data chunk is zeroed; over-long files; "all chunks correct but the data digest is wrong" (re-sealed).  On each state
every history over {validate-checksums, validate-data, find-valid} of length <= 2 (thorough 3) on one context, followed
by a read to the end and close.
Oracle: after each scan the per-chunk flags and the return value equal the reference recomputation from the bytes that
are on disk; validate-data reports success exactly when the reference data digest matches; file bytes are unchanged;
the final read's bytes and verdict equal those of a context that never validated.
"""
PROMOTE = True   # quick runs the former thorough bound (seconds); thorough goes deeper where a deeper bound is defined (ctx.deep)
import itertools
import core, zckref, universe
from universe import Cfg

OPS = "VDF"


def targets(ctx):
    thorough = ctx.tier == "thorough"
    D = universe.DELTA_DICT
    specs = [("aab", Cfg(0, b"", 0, 3, 1)), ("abb", Cfg(2, b"", 0, 3, 1)), ("abc", Cfg(2, D, 0, 1, 1)),
             ("aaa", Cfg(0, D, 0, 0, 0)), ("aab", Cfg(2, b"", 1, 1, 1)), ("abca", Cfg(0, b"", 0, 2, 1))]
    if thorough:
        specs += [("abca", Cfg(2, D, 1, 2, 0)), ("dddd", Cfg(0, b"", 1, 1, 1)), ("abab", Cfg(2, D, 0, 3, 0)), ("bbaa", Cfg(0, b"", 0, 3, 0))]
    files = universe.lib_files(specs, ctx.seed)
    out = []
    for (w, c), f in zip(specs, files):
        out.append(("lib:%s:%s" % (w, c.name()), f, False))
    # an index entry without stored bytes that is not the dictionary and whose checksum is not the all-zero convention of
    # an absent dictionary: nothing hashes to it, so it is failed whatever the file holds (re-sealed, body unchanged)
    for (w, c), f in list(zip(specs, files))[:2] + list(zip(specs, files))[4:5]:
        p = zckref.parse(f)
        for at in (2, len(p.chunks)):
            chunks = [zckref.Chunk(x.digest, x.clen, x.ulen, x.udigest) for x in p.chunks]
            chunks.insert(at, zckref.Chunk(b"\xaa" * len(p.chunks[0].digest), 0, 0, b"\xaa" * len(p.chunks[0].digest) if p.flags & 4 else None))
            h = zckref.Header(p.htype, p.ctype, p.flags, p.comp, chunks, p.data_digest)
            out.append(("ref:%s:%s:empty-entry@%d" % (w, c.name(), at), h.build() + f[p.header_len:], False))
    # value-dependent shapes: a chunk whose digest begins with 0x00 (its twin state is added in run()), and a file whose
    # data digest begins with 0x00 (its wrong-data-digest twin differs only in the last digest byte)
    for c in (Cfg(0, b"", 0, 3, 1), Cfg(2, b"", 0, 1, 1), Cfg(2, D, 1, 2, 1)):
        good, mut, content, ci, limit, Q = universe.twin_file(c, ctx.seed)
        out.append(("ref:twin:%s" % c.name(), good, False))
    for c in (Cfg(0, b"", 0, 3, 1), Cfg(2, b"", 0, 3, 0)):
        out.append(("ref:zero-data-digest:%s" % c.name(), universe.zero_data_file(c, ctx.seed), False))
    # scale-dependent shapes: chunks larger than one and than two 32 KiB scan buffers, exactly one buffer, one byte more
    for c in (Cfg(0, b"", 0, 3, 1), Cfg(2, b"", 0, 1, 1)):
        out.append(("ref:big:%s" % c.name(), universe.big_file(c, ctx.seed)[0], False))
    # ... and big chunks whose content repeats with a period dividing the buffer size (padding, ramps, zeros): what a stale
    # buffer holds is then exactly what the missing part of the file would have held
    out.append(("ref:big:periodic:c0", universe.big_periodic_file(Cfg(0, b"", 0, 3, 1), ctx.seed)[0], False))
    # detached twins of two of them (only the dictionary is scanned)
    for (w, c), f in list(zip(specs, files))[2:4]:
        out.append(("lib:%s:%s:detached" % (w, c.name()), universe.detach(f), True))
    return out


def states(base, p, thorough):
    """on-disk states: list of (name, bytes).  The header region is always B's header."""
    ext = zckref.extents(p)
    hl = p.header_len
    regions = [(i, off, ln) for i, (off, ln) in enumerate(ext) if ln > 0]
    kinds = "czf" + ("l" if thorough else "")
    out = []
    seen = set()

    def add(name, b):
        if b not in seen:
            seen.add(b)
            out.append((name, b))

    for combo in itertools.product(kinds, repeat=len(regions)):
        b = bytearray(base)
        for k, (i, off, ln) in zip(combo, regions):
            if off + ln > len(b):
                continue
            if k == "z":
                b[off:off + ln] = bytes(ln)
            elif k == "f":
                b[off] ^= 0x01
            elif k == "l":
                b[off + ln - 1] ^= 0x80
        add("regions=" + "".join(combo), bytes(b))
    full = bytes(base)
    for n in range(hl, len(full)):
        add("trunc=%d" % n, full[:n])
    if regions and regions[-1][1] + regions[-1][2] <= len(full):
        z = bytearray(full)
        i, off, ln = regions[1] if len(regions) > 1 else regions[0]
        z[off:off + ln] = bytes(ln)
        for n in range(hl, len(z)):
            add("zero%d+trunc=%d" % (i, n), bytes(z[:n]))
    for extra in (b"\0", b"\xff" * 3, full[hl:hl + 40]):
        add("overlong+%d" % len(extra), full + extra)
    return out


def states_big(base, p):
    """on-disk states of a file with big chunks: each chunk alone zeroed / damaged in its first byte, behind every 32 KiB seam
    and in its last byte; truncation and damage at every chunk edge and buffer seam (-1/0/+1); over-long"""
    out = [("regions=all-correct", bytes(base))]
    for i, (off, ln) in enumerate(zckref.extents(p)):
        if ln == 0:
            continue
        z = bytearray(base); z[off:off + ln] = bytes(ln); out.append(("zero%d" % i, bytes(z)))
        for q in sorted({0, ln - 1} | {k for k in range(universe.BUF - 1, ln, universe.BUF)} | {k for k in range(universe.BUF, ln, universe.BUF)}):
            z = bytearray(base); z[off + q] ^= 0x40; out.append(("flip%d@%d" % (i, q), bytes(z)))
    cuts = set(universe.seam_offsets(p))
    for off, ln in zckref.extents(p):
        cuts.update(off + k for k in range(4096, ln, 12288))       # and inside every buffer pass of every chunk
    for n in sorted(cuts):
        if p.header_len <= n < len(base):
            out.append(("trunc=%d" % n, bytes(base[:n])))
    out.append(("overlong+3", bytes(base) + b"\xff" * 3))
    return out


def wrong_data_digest(base):
    """re-sealed twin whose chunks are all correct but whose data digest is not"""
    p = zckref.parse(base)
    if p.flags & 4 or p.detached:
        return None
    dd = bytes([p.data_digest[0] ^ 1]) + p.data_digest[1:]
    if p.data_digest[0] == 0:
        dd = p.data_digest[:-1] + bytes([p.data_digest[-1] ^ 0x10])     # equal up to and beyond the 0x00 byte
    h = zckref.Header(p.htype, p.ctype, p.flags, p.comp, [zckref.Chunk(c.digest, c.clen, c.ulen, c.udigest) for c in p.chunks], dd)
    return h.build() + base[p.header_len:]


def histories(depth, deep=False):
    out = ["-"]
    for n in range(1, depth + 1):
        out += [",".join(h) for h in itertools.product(OPS, repeat=n)]
    # a partial read (5 bytes: less than any chunk, so decoded bytes stay buffered) in front of and between validations
    out += ["r5," + ",".join(h) for n in (1, 2) for h in itertools.product(OPS, repeat=n)]
    out += ["r5,%s,r5,%s" % (a, b) for a in OPS for b in OPS] + ["%s,r5,%s" % (a, b) for a in OPS for b in OPS]
    # a context with another kind of past: chunk requests (data / stored bytes) in front of and between the scans - whatever
    # they leave behind in the running digests, buffers and the file position, the scan has to classify the disk as it is
    for q in (("C1", "S1", "C2", "C1,C2") if deep else ("C1", "S2")):
        out += ["%s,%s" % (q, a) for a in OPS] + ["%s,%s,%s" % (a, q, b) for a in OPS for b in OPS]
        if deep:
            out += ["%s,%s,%s" % (q, a, b) for a in OPS for b in OPS]
    return out


def reference(p, disk, detached):
    """(flags string after a chunk scan, chunk-scan return, data-validation success?)"""
    vm = zckref.valid_map(p, disk)
    body = disk[p.header_len:p.header_len + p.data_len]
    data_ok = len(body) == p.data_len and (bool(p.flags & 4) or zckref.digest(p.htype, body) == p.data_digest)
    if detached:
        # only the dictionary entry is scanned, everything else stays unknown
        flags = ("+" if vm[0] == 1 else "!") + "0" * (len(vm) - 1)
        return flags, (1 if vm[0] == 1 else -1), None
    allgood = all(v == 1 for v in vm)
    if allgood and not data_ok:
        return "!" * len(vm), -1, False
    return "".join("+" if v == 1 else "!" for v in vm), (1 if allgood else -1), data_ok and (allgood or not (p.flags & 4))


def work(arg):
    name, base, detached, sts, hists = arg
    p = zckref.parse(base)
    job = ["sched 7"]
    for sname, disk in sts:
        job.append("disk %s" % disk.hex())
        job += ["hist %s" % h for h in hists]
    cs = core.drv("scan", "\n".join(job) + "\n", timeout=3000)
    res = {"n": 0, "tr": 0, "viol": [], "mixed": 0, "outcomes": set()}
    it = iter(cs)
    for sname, disk in sts:
        pd = zckref.parse(disk)  # same header
        flags_ref, ret_ref, data_ok = reference(pd, disk, detached)
        mixed = "+" in flags_ref and "!" in flags_ref
        baseline = None
        for h in hists:
            c = next(it)
            res["n"] += 1
            if mixed:
                res["mixed"] += 1
            s = c.first("S")
            case = {"name": name, "state": sname, "disk": disk.hex(), "hist": h, "detached": detached}
            klass = sname.split("=")[0].split("+")[0]
            if not c.done or s is None:
                res["viol"].append(({"check": "C09", "predicate": "crash-or-hang", "state": klass},
                                    "%s state %s history %s: %s" % (name, sname, h, c.status()), case))
                continue
            if s["open"] != "1":
                res["viol"].append(({"check": "C09", "predicate": "target-with-valid-header-does-not-open", "state": klass},
                                    "%s state %s: open failed" % (name, sname), case))
                continue
            steps = [] if s["steps"] == "-" else [x.split(":") for x in s["steps"].split(";")]
            res["tr"] += len(steps) + 1
            cur_flags = "0" * len(pd.chunks)
            bad = None
            for k, (op, ret, fl) in enumerate(steps):
                ret = int(ret)
                if op in "CS":
                    # a chunk request in the history: its own result is C14's subject; one that failed leaves the context in
                    # error state (every later call is refused by design), so nothing behind it is judged
                    if ret < 0:
                        break
                    cur_flags = fl
                    continue
                if op == "r":
                    # a partial read in front of / between the validations: what the scans report on a context that is in the
                    # middle of a stream (or in error state after a refused read) is not judged - only the final content is
                    break
                scan = op in "VF" or (op == "D" and pd.flags & 4)
                if scan:
                    cur_flags = flags_ref
                    if fl != flags_ref:
                        bad = ("flags-differ-from-disk", "step %d (%s): flags %s, reference %s" % (k, op, fl, flags_ref))
                    elif (ret == 1) != (ret_ref == 1):
                        bad = ("scan-verdict", "step %d (%s): returned %d, reference %d" % (k, op, ret, ret_ref))
                else:
                    if (ret == 1) != bool(data_ok):
                        bad = ("data-validation-verdict", "step %d (D): returned %d, reference data digest %s" % (
                            k, ret, "matches" if data_ok else "does not match"))
                    elif fl != cur_flags:
                        bad = ("data-validation-changed-flags", "step %d (D): flags %s -> %s" % (k, cur_flags, fl))
                res["outcomes"].add((op, ret, mixed))
                if bad:
                    break
            if not bad and s["same"] != "1":
                bad = ("file-modified", "file bytes changed by history %s" % h)
            obs = (s["last"], s["rclose"], s["content"], s["ferr"])
            if h == "-":
                baseline = obs
            elif "C" in h or "S" in h:
                pass    # a sequential read behind a chunk request has no defined position (C14): the final read is not judged
            elif not bad and baseline is not None and "r" in h:
                # partial reads mixed with validations: the library may refuse to go on (it does), but if every call
                # reports success the stream must be the file's content
                ok_now = obs[0] == "0" and obs[1] == "1" and obs[3] == "0"
                ok_base = baseline[0] == "0" and baseline[1] == "1" and baseline[3] == "0"
                if ok_now and (not ok_base or obs[2] != baseline[2]):
                    bad = ("success-with-other-content-after-partial-read-and-validation", "history %s then read to the end: every call succeeded, %d bytes in total; "
                           "a plain read %s" % (h, len(core.unhex(obs[2])), "returns %d bytes" % len(core.unhex(baseline[2])) if ok_base else "fails"))
            elif not bad and baseline is not None and obs != baseline:
                bad = ("read-after-validation-differs", "read after %s gave last=%s close=%s %d bytes; without validation last=%s close=%s %d bytes" % (
                    h, obs[0], obs[1], len(core.unhex(obs[2])), baseline[0], baseline[1], len(core.unhex(baseline[2]))))
            if bad:
                dup = len(set(c.digest for c in pd.chunks)) < len(pd.chunks)
                res["viol"].append(({"check": "C09", "predicate": bad[0], "state": klass, "first_op": steps[0][0] if steps else "-",
                                     "detached": detached, "uncomp": bool(pd.flags & 4), "duplicate_chunks": dup},
                                    "%s state %s history %s: %s" % (name, sname, h, bad[1]), case))
    return res


def run(ctx):
    depth = 2 if ctx.tier == "quick" else (4 if ctx.deep else 3)
    hists = histories(depth, ctx.deep)
    tg = targets(ctx)
    jobs = []
    nstates = 0
    for name, base, detached in tg:
        p = zckref.parse(base)
        big = name.startswith("ref:big:")
        sts = states_big(base, p) if big else states(base, p, ctx.tier == "thorough")
        w = wrong_data_digest(base)
        if w:
            sts.append(("wrong-data-digest", w))
        if name.startswith("ref:twin:"):
            c = [c for c in (Cfg(0, b"", 0, 3, 1), Cfg(2, b"", 0, 1, 1), Cfg(2, universe.DELTA_DICT, 1, 2, 1)) if "ref:twin:%s" % c.name() == name][0]
            sts.append(("twin-replaced", universe.twin_file(c, ctx.seed)[1]))
        nstates += len(sts)
        for ch in core.chunks(sts, 2 if big else 40):
            jobs.append((name, base, detached, ch, hists if not big else [h for h in hists if h.count(",") <= 1]))
    ctx.bounds = {"targets": [t[0] for t in tg], "history_depth": depth, "ops": "V validate-checksums, D validate-data, F find-valid",
                  "on_disk_states": nstates, "per_chunk_states": "correct/zeroed/bit-flipped" + ("/last-bit-flipped" if ctx.tier == "thorough" else ""),
                  "truncations": "every length of the all-correct and of a one-chunk-zeroed body"}
    ctx.rule = ("case = (on-disk state, validation history) on one context followed by a full read; non-trivial = state in which "
                "the reference finds both valid and failed chunks")
    for r in core.pmap(work, jobs):
        ctx.states += r["n"]; ctx.evaluations += r["n"]; ctx.transitions += r["tr"]; ctx.nontrivial += r["mixed"]
        ctx.outcomes |= r["outcomes"]
        for sig, what, case in r["viol"]:
            ctx.violation(sig, what, case)
    ctx.sample({"target": tg[0][0], "state": "regions=czf (chunk 1 correct, 2 zeroed, 3 bit-flipped)", "history": "F,D",
                "expect": "flags +!! after F, D returns -1, read fails like a read without validation"})
    ctx.sample({"target": tg[0][0], "state": "trunc=<header+first chunk>", "history": "V", "expect": "second (identical) chunk failed"})


def replay(case, quiet=True):
    disk = bytes.fromhex(case["disk"])
    hists = ["-", case["hist"]] if case["hist"] != "-" else ["-"]
    r = work((case["name"], disk, case["detached"], [(case["state"], disk)], hists))
    return {"violated": bool(r["viol"]), "detail": [v[1] for v in r["viol"]]}
