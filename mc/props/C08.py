"""C08 - local chunk reuse never accepts bytes that do not match the target index.

Space: targets B = words (<= 3 letters) with every subset of chunks already valid; sources A = words x source damage:
each chunk region {intact, one bit flipped, zeroed}, truncation at every length, re-sealed crafted indexes (sizes
swapped, a digest of B attached to other bytes or to other lengths, shifted / out-of-file extents), other dictionary,
other chunk digest type, other compression; sequences of up to two copies from two sources in both orders and a
repeated copy; zck_find_matching_chunks on the same pairs, including uncompressed-digest matching between files with
different compression.
Oracle, after every call: flagged valid => the bytes at its extent hash to the target's index digest; flagged failed
=> extent zero-filled; header, previously valid chunks, still-missing chunks and the source file unchanged; a target
chunk for which the source index has no entry with equal (digest, stored size, size) is not touched; a matched pair
has equal (un)compressed digest and equal length.
"""
PROMOTE = True   # quick runs the former thorough bound (seconds); thorough goes deeper where a deeper bound is defined (ctx.deep)
import itertools
import core, zckref, universe
from universe import Cfg
from zckref import Chunk

D = universe.DELTA_DICT
D2 = bytes(reversed(D))


def clone_header(p, chunks=None):
    return zckref.Header(p.htype, p.ctype, p.flags, p.comp,
                         chunks if chunks is not None else [Chunk(c.digest, c.clen, c.ulen, c.udigest) for c in p.chunks],
                         p.data_digest)


def damages(a, pa, pb, thorough, trunc):
    """variants of source file a: list of (name, bytes)"""
    out = [("intact", a)]
    ext = zckref.extents(pa)
    body = a[pa.header_len:]
    for i, (off, ln) in enumerate(ext):
        if ln == 0:
            continue
        x = bytearray(a); x[off + ln // 2] ^= 0x10; out.append(("flip%d" % i, bytes(x)))
        x = bytearray(a); x[off:off + ln] = bytes(ln); out.append(("zero%d" % i, bytes(x)))
    if trunc:
        for n in range(pa.header_len, len(a)):
            out.append(("trunc=%d" % n, a[:n]))
    # crafted indexes (re-sealed so that the source opens)
    n = len(pa.chunks)
    real = [(i, c) for i, c in enumerate(pa.chunks) if c.clen > 0]
    for (i, ci), (j, cj) in itertools.combinations(real, 2):
        if (ci.clen, ci.ulen) != (cj.clen, cj.ulen):
            h = clone_header(pa)
            h.chunks[i].clen, h.chunks[i].ulen, h.chunks[j].clen, h.chunks[j].ulen = cj.clen, cj.ulen, ci.clen, ci.ulen
            out.append(("sizes-swapped[%d,%d]" % (i, j), h.build() + body))
    src_digests = {c.digest for c in pa.chunks}
    for x, cx in enumerate(pb.chunks):
        if cx.clen == 0:
            continue
        for (i, ci) in real[:2] if not thorough else real:
            if cx.digest not in src_digests:
                # B's digest attached to A's bytes with B's lengths: lookup matches, bytes do not
                h = clone_header(pa); h.chunks[i] = Chunk(cx.digest, cx.clen, cx.ulen, cx.udigest)
                out.append(("bdigest%d-on-entry%d" % (x, i), h.build() + body))
            # B's digest with other lengths: must not be used at all
            for dc, du in ((0, 1), (1, 0), (-1, 0)) if thorough else ((0, 1), (-1, 0)):
                if cx.clen + dc <= 0:
                    continue
                h = clone_header(pa); h.chunks[i] = Chunk(cx.digest, cx.clen + dc, cx.ulen + du, cx.udigest)
                out.append(("bdigest%d-on-entry%d-len%+d%+d" % (x, i, dc, du), h.build() + body))
    if real:
        # every real entry keeps its digest and lengths but an earlier entry grows: extents shift / leave the file
        for grow in (1, 1 << 31):
            h = clone_header(pa)
            first = real[0][0]
            h.chunks[first].clen += grow
            out.append(("entry%d-clen+%d" % (first, grow), h.build() + body))
        if pa.chunks[0].clen == 0:
            h = clone_header(pa); h.chunks[0].clen = 3; h.chunks[0].ulen = 3; h.chunks[0].digest = zckref.digest(pa.ctype, body[:3])
            out.append(("dict-entry-steals-3-bytes", h.build() + body))
    return out


def match_crafts(a, pa, pb):
    """re-sealed sources for zck_find_matching_chunks: an entry that carries a target chunk's digests but another length"""
    out = []
    body = a[pa.header_len:]
    real = [i for i, c in enumerate(pa.chunks) if c.clen > 0]
    entries = sorted(set([0] + real[:2]))
    for x, cx in enumerate(pb.chunks):
        for i in entries:
            ci = pa.chunks[i]
            for du in (1, -1, 64):
                if cx.ulen + du < 0:
                    continue
                ud = cx.udigest if (cx.udigest is not None and len(cx.udigest) == len(ci.udigest or b"")) else ci.udigest
                dg = cx.digest if len(cx.digest) == len(ci.digest) else ci.digest
                h = clone_header(pa); h.chunks[i] = Chunk(dg, ci.clen, cx.ulen + du, ud)
                out.append(("mcraft%d-on-entry%d-ulen%+d" % (x, i, du), h.build() + body))
            # digests in the wrong column: the entry's stored-bytes digest is the target chunk's uncompressed digest (and
            # the other way round) while the column that matters differs - a table keyed on the wrong field pairs them
            if cx.udigest is not None and ci.udigest is not None and len(cx.udigest) == len(ci.digest) and cx.udigest != ci.udigest:
                h = clone_header(pa); h.chunks[i] = Chunk(cx.udigest, ci.clen, cx.ulen, ci.udigest)
                out.append(("mcraft%d-on-entry%d-udigest-in-digest-column" % (x, i), h.build() + body))
                h = clone_header(pa); h.chunks[i] = Chunk(ci.digest, ci.clen, cx.ulen, cx.digest if len(cx.digest) == len(ci.udigest) else ci.udigest)
                out.append(("mcraft%d-on-entry%d-digest-in-udigest-column" % (x, i), h.build() + body))
    return out


def judge_copy(pb, ext, before_flags, t0, after_flags, t1, src_triples):
    if isinstance(t1, core.HashedBlob):
        return "target-length-changed", "%d -> %d bytes" % (len(t0), t1.declared_len)
    if len(t1) != len(t0):
        return "target-length-changed", "%d -> %d bytes" % (len(t0), len(t1))
    if t1[:pb.header_len] != t0[:pb.header_len]:
        return "target-header-modified", ""
    for i, ((off, ln), c) in enumerate(zip(ext, pb.chunks)):
        b0, b1 = t0[off:off + ln], t1[off:off + ln]
        fb, fa = before_flags[i], after_flags[i]
        if fa == "+" and ln > 0 and zckref.digest(pb.ctype, b1) != c.digest:
            return "chunk-valid-but-bytes-do-not-match-digest", "chunk %d" % i
        if fa == "!" and b1 != bytes(ln):
            return "failed-chunk-not-zero-filled", "chunk %d" % i
        if fb == "+" and (fa != "+" or b1 != b0):
            return "previously-valid-chunk-touched", "chunk %d: flag %s -> %s" % (i, fb, fa)
        if fa == "0" and b1 != b0 and (c.digest, c.clen, c.ulen) not in src_triples:
            # (a chunk the copy attempted and gave up on - the source ended inside it - may be left missing with some of its
            # own bytes overwritten: the statement only protects bytes OUTSIDE the extents of the chunks being filled)
            return "still-missing-chunk-modified", "chunk %d" % i
        if (c.digest, c.clen, c.ulen) not in src_triples and (fa != fb or b1 != b0):
            return "chunk-used-without-matching-source-entry", "chunk %d: flag %s -> %s, no source entry with its (digest, stored size, size)" % (i, fb, fa)
    return None


def judge_match(pb, ps, before_flags, after_flags, pairs):
    pm = {}
    for pr in ([] if pairs == "-" else pairs.split(",")):
        t, s, d, cl, ul, ud = pr.split(":")
        pm[int(t)] = (int(s), d, int(cl), int(ul), ud)
    same_comp = pb.comp == ps.comp
    both_u = bool(pb.flags & 4) and bool(ps.flags & 4)
    for i, c in enumerate(pb.chunks):
        if before_flags[i] != "+" and after_flags[i] == "+" and i not in pm:
            return "matched-without-source-chunk", "chunk %d" % i
    for t, (s, d, cl, ul, ud) in pm.items():
        if before_flags[t] == "+":
            continue  # paired by an earlier call (possibly with another source)
        c = pb.chunks[t]
        if s >= len(ps.chunks) or ps.chunks[s].digest.hex() != d:
            return "pair-names-unknown-source-chunk", "target %d -> source %d" % (t, s)
        if ul != c.ulen:
            return "pair-with-different-length", "target %d (%d bytes) -> source %d (%d bytes)" % (t, c.ulen, s, ul)
        if same_comp:
            if d != c.digest.hex():
                return "pair-with-different-digest", "target %d -> source %d" % (t, s)
        elif both_u:
            if c.udigest is None or ud != c.udigest.hex():
                return "pair-with-different-uncompressed-digest", "target %d -> source %d" % (t, s)
        else:
            return "pair-across-compression-without-uncompressed-digests", "target %d -> source %d" % (t, s)
    return None


def work(arg):
    bname, b, groups = arg   # groups: list of (s1name, s1, s2name, s2, [(tmark, seq)])
    pb = zckref.parse(b)
    ext = zckref.extents(pb)
    job = ["tgt %s" % b.hex()]
    flat = []
    for s1n, s1, s2n, s2, cases in groups:
        job.append("src1 %s" % (s1.hex() if s1 is not None else "-"))
        job.append("src2 %s" % (s2.hex() if s2 is not None else "-"))
        for tmark, seq in cases:
            job.append("case tmark=%s seq=%s" % (tmark, seq))
            flat.append((s1n, s1, s2n, s2, tmark, seq))
    cs = core.drv("copy", "\n".join(job) + "\n", timeout=3000, env_extra={"VF_BLOB_MAX": "100000000"} if bname.startswith("big:") else None)
    res = {"n": 0, "tr": 0, "wrote": 0, "viol": [], "outcomes": set()}
    parsed = {}

    def sparse(s):
        if s is None:
            return None
        k = id(s)
        if k not in parsed:
            try:
                parsed[k] = zckref.parse(s)
            except zckref.Invalid:
                parsed[k] = None
        return parsed[k]

    for c, (s1n, s1, s2n, s2, tmark, seq) in zip(cs, flat):
        res["n"] += 1
        case = {"bname": bname, "b": b.hex(), "s1name": s1n, "s1": s1.hex() if s1 is not None else None, "s2name": s2n,
                "s2": s2.hex() if s2 is not None else None, "tmark": tmark, "seq": seq}
        dmg = (s1n.split(":")[-1].split("=")[0].rstrip("0123456789[],-+") or "x")
        klass = {"check": "C08", "damage": dmg, "op": seq[0] if seq[0] not in "nv" else seq[0] + "+" + seq.split(",")[-1][0]}
        pl = c.first("P")
        if not c.done or pl is None:
            res["viol"].append((dict(klass, predicate="crash-or-hang"), "%s <- %s mark %s seq %s: %s" % (bname, s1n, tmark, seq, c.status()), case))
            continue
        if pl["topen"] != "1":
            raise core.HarnessError("target does not open: %s" % bname)
        flags = pl["flags0"]
        t_prev = None
        # initial target bytes as the driver builds them
        t0 = bytearray(b"\xaa" * len(b)); t0[:pb.header_len] = b[:pb.header_len]
        for i, (off, ln) in enumerate(ext):
            if tmark[i] == "+":
                t0[off:off + ln] = b[off:off + ln]
        t_prev = bytes(t0)
        bad = None
        for q in c.all("Q"):
            if q["ret"] == "skipped":
                continue
            res["tr"] += 1
            si = 0 if q["op"][1] == "1" else 1
            ps = sparse((s1, s2)[si])
            t1 = core.unhex(q["tfile"])
            if q["op"][0] in "nv":
                if t1 != t_prev or q["flags"] != flags:
                    bad = ("option-call-modified-target", "step %s (%s)" % (q["step"], q["op"]))
                    break
                continue
            if q["op"][0] == "c":
                triples = {(x.digest, x.clen, x.ulen) for x in ps.chunks} if ps else set()
                bad = judge_copy(pb, ext, flags, t_prev, q["flags"], t1, triples)
                if q["flags"] != flags:
                    res["wrote"] += 1
                res["outcomes"].add(("c", q["flags"].count("+") - flags.count("+") > 0, "!" in q["flags"]))
            else:
                if t1 != t_prev:
                    bad = ("matching-modified-target", "")
                elif ps is not None:
                    bad = judge_match(pb, ps, flags, q["flags"], q.get("pairs", "-"))
                res["outcomes"].add(("m", q.get("pairs", "-") != "-"))
            if bad:
                bad = (bad[0], "step %s (%s): %s" % (q["step"], q["op"], bad[1]))
                break
            flags, t_prev = q["flags"], t1
        z = c.first("Z")
        if not bad and z and (z["s1same"] != "1" or z["s2same"] != "1"):
            bad = ("source-modified", "")
        if bad:
            res["viol"].append((dict(klass, predicate=bad[0]), "%s <- %s%s mark %s seq %s: %s" % (
                bname, s1n, (" , " + s2n) if s2 is not None else "", tmark, seq, bad[1]), case))
    return res


def marks(pb, thorough):
    n = len(pb.chunks)
    idx = [i for i, c in enumerate(pb.chunks) if c.clen > 0]
    out = []
    for bits in itertools.product("0+", repeat=len(idx)):
        m = ["+"] * n
        for i, v in zip(idx, bits):
            m[i] = v
        out.append("".join(m))
    return out


def run(ctx):
    thorough = ctx.tier == "thorough"
    alpha = ("abcd" if ctx.deep else "abc") if thorough else "ab"
    wl = [w for w in core.words(3, alpha, 1)]
    cfgs = [Cfg(0, b"", 0, 3, 1), Cfg(2, b"", 0, 3, 1)] + ([Cfg(2, D, 0, 3, 1)] if thorough else [])
    specs = [(w, c) for c in cfgs for w in wl]
    extra = [("ab", Cfg(2, D, 0, 3, 1)), ("ab", Cfg(2, D2, 0, 3, 1)), ("ab", Cfg(0, b"", 0, 1, 1)), ("aab", Cfg(2, D, 0, 3, 1)),
             ("abc", Cfg(2, b"", 1, 1, 1)), ("abc", Cfg(0, b"", 1, 1, 1)), ("cab", Cfg(0, b"", 1, 1, 1)), ("cab", Cfg(2, b"", 1, 1, 1)),
             ("ab", Cfg(2, D, 1, 1, 1)), ("ab", Cfg(0, D[:32], 1, 1, 1)), ("ab", Cfg(0, D, 1, 1, 1)), ("ab", Cfg(2, D[:32], 1, 1, 1))]
    files = dict(zip([(w, c.name()) for w, c in specs + extra], universe.lib_files(specs + extra, ctx.seed)))
    jobs = []
    npairs = 0
    for cfg in cfgs:
        for bw in wl:
            b = files[(bw, cfg.name())]
            pb = zckref.parse(b)
            mk = marks(pb, thorough)
            groups = []
            for aw in wl:
                a = files[(aw, cfg.name())]
                pa = zckref.parse(a)
                npairs += 1
                trunc = (aw == bw and len(bw) >= 2) or (thorough and set(aw) & set(bw) and len(aw) == 3 and len(bw) == 3 and cfg.comp == 0)
                for dn, da in damages(a, pa, pb, thorough, trunc):
                    light = dn.startswith("trunc") or dn.startswith("bdigest")
                    ms = [mk[0]] if light else mk
                    cases = [(m, "c1") for m in ms]
                    if dn == "intact":
                        cases += [(mk[0], "c1,c1"), (mk[0], "m1"), (mk[-1], "m1"), (mk[0], "n1,c1")]
                    if not light:
                        # ZCK_NO_WRITE set on the target context (accepted by read contexts): whatever the copy then marks
                        # valid or failed must still be true of the bytes in the file
                        cases += [(mk[0], "nt,c1"), (mk[len(mk) // 2], "nt,c1")]
                        # contexts with a past: the lead validated again on the opened target / source before the copy (a matching
                        # call before a copy is not in the alphabet: it marks by index comparison alone, see DESIGN.md section 14)
                        cases += [(mk[0], "vt,c1"), (mk[0], "v1,c1"), (mk[len(mk) // 2], "vt,c1,c1")]
                    groups.append(("%s:%s:%s" % (aw, cfg.name(), dn), da, "-", None, cases))
            for ch in core.chunks(groups, 60):
                jobs.append(("%s:%s" % (bw, cfg.name()), b, ch))
    # two sources, both orders; cross-configuration pairs
    two = []
    base = cfgs[0]
    for bw in (["ab", "aab", "abb", "bab"] if not thorough else [w for w in wl if len(w) >= 2]):
        b = files[(bw, base.name())]
        pb = zckref.parse(b)
        mk = marks(pb, thorough)
        groups = []
        for a1, a2 in itertools.permutations([w for w in wl if len(w) <= 2], 2):
            f1, f2 = files[(a1, base.name())], files[(a2, base.name())]
            ext1 = zckref.extents(zckref.parse(f1))
            x = bytearray(f1)
            off, ln = ext1[-1]
            x[off] ^= 1
            groups.append(("%s:%s:intact" % (a1, base.name()), f1, "%s:%s" % (a2, base.name()), f2, [(mk[0], "c1,c2"), (mk[0], "c2,c1"), (mk[0], "m1,m2")]))
            groups.append(("%s:%s:flip-last" % (a1, base.name()), bytes(x), "%s:%s" % (a2, base.name()), f2, [(mk[0], "c1,c2"), (mk[0], "c2,c1")]))
        for ch in core.chunks(groups, 60):
            two.append(("%s:%s" % (bw, base.name()), b, ch))
    cross = []
    X = lambda w, c: files[(w, c.name())]
    zD, zD2, n1, zU, nU = Cfg(2, D, 0, 3, 1), Cfg(2, D2, 0, 3, 1), Cfg(0, b"", 0, 1, 1), Cfg(2, b"", 1, 1, 1), Cfg(0, b"", 1, 1, 1)
    zDU, nDsU, nDU, zDsU = Cfg(2, D, 1, 1, 1), Cfg(0, D[:32], 1, 1, 1), Cfg(0, D, 1, 1, 1), Cfg(2, D[:32], 1, 1, 1)
    for (bw, bc), (aw, ac) in [(("ab", zD), ("ab", zD2)), (("ab", zD2), ("ab", zD)), (("ab", cfgs[0]), ("ab", n1)), (("ab", n1), ("ab", cfgs[0])),
                               (("ab", cfgs[0]), ("ab", cfgs[1])), (("ab", cfgs[1]), ("ab", cfgs[0])),
                               (("abc", zU), ("abc", nU)), (("abc", nU), ("abc", zU)), (("abc", zU), ("cab", nU)), (("cab", nU), ("abc", zU)),
                               (("abc", zU), ("cab", zU)), (("abc", zU), ("ab", cfgs[1])), (("aab", zD), ("ab", zD)),
                               # uncompressed-source files with dictionaries of different and of equal sizes, across compression types
                               (("ab", zDU), ("ab", nDsU)), (("ab", nDsU), ("ab", zDU)), (("ab", zDU), ("ab", nDU)), (("ab", nDU), ("ab", zDU)),
                               (("ab", zDU), ("ab", zDsU)), (("ab", nDU), ("ab", nDsU))]:
        b, a = X(bw, bc), X(aw, ac)
        pb = zckref.parse(b)
        mk = marks(pb, thorough)
        groups = [("%s:%s:intact" % (aw, ac.name()), a, "-", None,
                   [(m, "c1") for m in mk] + [(mk[0], "m1"), (mk[0], "m1,m1"), (mk[0], "c1,c1")])]
        for dn, da in match_crafts(a, zckref.parse(a), pb):
            groups.append(("%s:%s:%s" % (aw, ac.name(), dn), da, "-", None, [(mk[0], "m1"), (mk[0], "c1")]))
        cross.append(("%s:%s" % (bw, bc.name()), b, groups))
    # chunks that end in runs of zeros (and one that is all zeros), source truncated at every length: a copy loop that hashes
    # its own zero-initialised buffer instead of what it read would call the truncated chunk good
    zt = []
    for comp in (0,):
        zf, zh, zbody = zckref.build_file([b"AB" + bytes(30), bytes(20) + b"Q", bytes(25), b"xyz" + bytes(40)], comp=comp, htype=1, ctype=3)
        pz = zckref.parse(zf)
        mkz = marks(pz, False)
        groups = [("zeros:%s" % dn, da, "-", None, [(mkz[0], "c1"), (mkz[0], "c1,c1")]) for dn, da in damages(zf, pz, pz, False, True)
                  if dn.startswith("trunc") or dn == "intact"]
        for ch in core.chunks(groups, 60):
            zt.append(("zero-tails:c%d" % comp, zf, ch))
    cross += zt
    # digest twins (value-dependent shape): the source lists the target's chunk but stores other bytes of the same length whose
    # digest shares its leading 0x00 byte with the listed digest
    for cfg in (Cfg(0, b"", 0, 3, 1), Cfg(2, b"", 0, 1, 1), Cfg(2, D, 1, 2, 0)):
        for at in (0, 2):
            good, mut, content, ci, limit, Q = universe.twin_file(cfg, ctx.seed, at=at)
            mkt = marks(zckref.parse(good), False)
            cross.append(("twin:%s@%d" % (cfg.name(), at), good, [("twin:replaced", mut, "-", None, [(mkt[0], "c1"), (mkt[0], "c1,c1"), (mkt[0], "m1")])]))
    # scale-dependent shapes: chunks larger than one and two 32 KiB copy buffers, exactly one buffer, one byte more; the source
    # intact, damaged directly in front of / behind every buffer seam and chunk edge, and truncated there
    for cfg in (Cfg(0, b"", 0, 3, 1), Cfg(2, b"", 0, 1, 1), "periodic"):
        if cfg == "periodic":
            cfg = Cfg(0, b"", 0, 3, 1)
            bigf, _ = universe.big_periodic_file(cfg, ctx.seed)
        else:
            bigf, _ = universe.big_file(cfg, ctx.seed)
        pbig = zckref.parse(bigf)
        mkb = marks(pbig, False)
        groups = [("big:intact", bigf, "-", None, [(mkb[0], "c1"), (mkb[0], "c1,c1"), (mkb[len(mkb) // 3], "c1")])]
        for n in universe.seam_offsets(pbig):
            if pbig.header_len <= n < len(bigf):
                x = bytearray(bigf); x[n] ^= 0x08
                groups.append(("big:flip=%d" % n, bytes(x), "-", None, [(mkb[0], "c1")]))
                groups.append(("big:trunc=%d" % n, bigf[:n], "-", None, [(mkb[0], "c1")]))
        # a source that holds the big chunks in another order (other offsets, other seams relative to the file)
        f2, h2, b2 = zckref.build_file(list(reversed(universe.big_file(cfg, ctx.seed)[1])), comp=cfg.comp, htype=cfg.fhash, ctype=cfg.chash, level=3)
        groups.append(("big:reversed", f2, "-", None, [(mkb[0], "c1"), (mkb[0], "m1")]))
        for off, ln in zckref.extents(pbig):
            for n in range(off + 4096, off + ln, 12288):
                groups.append(("big:trunc=%d" % n, bigf[:n], "-", None, [(mkb[0], "c1")]))
        for ch in core.chunks(groups, 4):
            cross.append(("big:%s:%d" % (cfg.name(), len(bigf)), bigf, ch))
    ctx.bounds = {"words": "<= 3 letters over %s" % alpha, "configurations": [c.name() for c in cfgs], "pairs": npairs,
                  "target_markings": "every subset of chunks valid", "sequences": "c1 | c1,c1 | c1,c2 | c2,c1 | m1 | m1,m2"}
    ctx.rule = "case = (target marking, source with damage, call sequence); non-trivial = case in which a copy changed a chunk's marking"
    for r in core.pmap(work, jobs + two + cross):
        ctx.states += r["n"]; ctx.evaluations += r["n"]; ctx.transitions += r["tr"]; ctx.nontrivial += r["wrote"]
        ctx.outcomes |= r["outcomes"]
        for sig, what, case in r["viol"]:
            ctx.violation(sig, what, case)
    ctx.sample({"target": "aab (all missing)", "source": "ab with chunk 'a' bit-flipped", "seq": "c1",
                "expect": "both 'a' chunks failed and zero-filled, 'b' valid, header and source unchanged"})


def replay(case, quiet=True):
    s1 = bytes.fromhex(case["s1"]) if case["s1"] else None
    s2 = bytes.fromhex(case["s2"]) if case["s2"] else None
    r = work((case["bname"], bytes.fromhex(case["b"]), [(case["s1name"], s1, case["s2name"], s2, [(case["tmark"], case["seq"])])]))
    return {"violated": bool(r["viol"]), "detail": [v[1] for v in r["viol"]]}
