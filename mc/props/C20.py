"""C20 - compressed-integer codec: exact, bounded reads, overflow-rejecting.

Space: encode->decode of every value in [0,2^21) (quick 2^16), all 2^k, 2^k+-1; decode of every byte string of length
<= 3 (quick <= 2) at cursor offsets {0,1,5} with the buffer ending exactly at the string's end, flush against an
inaccessible page; the empty buffer; a cursor that is already 1, 2, 9, 64 or 4000 bytes past the end of the buffer
(nothing may be read); strings of length 8..11 with three prefix patterns and every value in the last
three (quick two) positions.  Oracle: exact arithmetic in the driver (unsigned __int128), itself cross-checked against
the Python reference decoder on every string of length <= 2.
"""
PROMOTE = True   # quick runs the former thorough bound (seconds); thorough goes deeper where a deeper bound is defined (ctx.deep)
import core, zckref


def jobs(ctx):
    quick = ctx.tier == "quick"
    out = []
    maxlen = 2 if quick else 3
    step = 64 if quick else 16
    for lo in range(0, 256, step):
        out.append("decode first=%d-%d maxlen=%d offsets=%s" % (lo, lo + step - 1, maxlen, "0,1,5,9" if ctx.deep else "0,1,5"))
    out.append("empty offsets=0,1,5")
    out.append("beyond")
    tail = 2 if quick else 3
    for ln in (8, 9, 10, 11):
        for prefix in (0, 1, 2):
            if tail == 2:
                out.append("long first=0-255 len=%d prefix=%d tail=2 offsets=0,5" % (ln, prefix))
            else:
                for lo in range(0, 256, 32):
                    out.append("long first=%d-%d len=%d prefix=%d tail=3 offsets=0" % (lo, lo + 31, ln, prefix))
    top = 1 << (16 if quick else (24 if ctx.deep else 21))
    stepv = top // 16
    for lo in range(0, top, stepv):
        out.append("round lo=%d hi=%d" % (lo, lo + stepv))
    out.append("roundpow")
    # the same codec calls on contexts that are in use: in the middle of writing a file (ctx=1), with a file open for reading (ctx=2)
    for cm in (1, 2):
        out += ["roundpow ctx=%d" % cm, "round lo=0 hi=20000 ctx=%d" % cm, "decode first=0-255 maxlen=2 offsets=0,1,5 ctx=%d" % cm, "beyond ctx=%d" % cm]
    return out


def run_job(line):
    cs = core.drv("compint", line + "\n", timeout=3000)
    c = cs[0]
    st = c.status()
    cnt = c.first("C")
    return {"line": line, "ok": c.ok, "status": st, "count": cnt, "mism": c.all("M")}


def oracle_conformance(ctx):
    """the in-driver oracle must agree with the independent Python decoder on every string of length <= 2"""
    cs = core.drv("compint", "dump maxlen=2\n")
    n = 0
    for d in cs[0].all("O"):
        s = bytes.fromhex(d["s"])
        try:
            v, l = zckref.dec_ci(s, 0, len(s))
            exp = (1, v, l)
        except zckref.Invalid:
            exp = (0, 0, 0)
        got = (int(d["ok"]), int(d["v"]), int(d["l"]))
        if exp != got:
            raise core.HarnessError("driver oracle disagrees with zckref on %s: %s vs %s" % (d["s"], got, exp))
        n += 1
    return n


def classify(m):
    """input class of a mismatch: which function, which predicate, and a coarse shape of the string"""
    s = bytes.fromhex(m["bytes"]) if m["bytes"] != "-" else b""
    shape = "empty" if not s else ("len<=3" if len(s) <= 3 else "len%d" % len(s))
    off = "off0" if m["off"] == "0" else "off>0"
    return {"check": "C20", "fn": m["fn"], "predicate": m["pred"], "shape": shape, "offset": off}


def run(ctx):
    n = oracle_conformance(ctx)
    ctx.note("oracle conformance: %d strings agree with zckref.dec_ci" % n)
    js = jobs(ctx)
    ctx.bounds = {"decode_maxlen": 2 if ctx.tier == "quick" else 3, "offsets": [0, 1, 5],
                  "long": "len 8..11 x 3 prefixes x last %d positions" % (2 if ctx.tier == "quick" else 3),
                  "roundtrip": "[0,2^%d) + 2^k,2^k+-1" % (16 if ctx.tier == "quick" else (24 if ctx.deep else 21)), "jobs": len(js)}
    ctx.rule = ("case = (function, byte string, cursor offset) or (value); distinct by enumeration; non-trivial = string "
                "whose terminator is its last byte (ends exactly at the guard page) or that must be rejected")
    res = core.pmap(run_job, js)
    for r in res:
        if not r["ok"] and r["count"] is None:
            ctx.violation({"check": "C20", "predicate": "crash", "job": r["line"].split()[0]},
                          "codec job crashed: %s" % (r["status"],), {"line": r["line"]})
            continue
        c = r["count"]
        ctx.states += int(c["calls"])
        ctx.transitions += int(c["calls"])
        ctx.evaluations += int(c["calls"])
        ctx.nontrivial += int(c["term_at_end"]) + int(c["mustfail"])
        ctx.outcomes.add("ok" if int(c["mism"]) == 0 else "mismatch")
        if not r["ok"]:
            ctx.violation({"check": "C20", "predicate": "sanitizer", "job": r["line"].split()[0]},
                          "sanitizer report in codec: %s" % (r["status"]["san"][:300],), {"line": r["line"]})
        for m in r["mism"]:
            ctx.outcomes.add(m["pred"])
            ctx.violation(classify(m), "compint %s: %s on bytes %s at offset %s (expected %s, got %s)" % (
                m["fn"], m["pred"], m["bytes"], m["off"], m["exp"], m["got"]),
                {"line": r["line"], "bytes": m["bytes"], "off": m["off"], "fn": m["fn"], "pred": m["pred"]})
    ctx.sample({"decode": "bytes 7f 80 at offset 5, buffer ends at the guard page", "expect": "value 127, length 2"})
    ctx.sample({"round": 16384, "expect": "3 bytes 00 00 81"})
    ctx.extra["oracle_conformance_strings"] = n


def replay(case, quiet=True):
    r = run_job(case["line"])
    if "bytes" not in case:
        return {"violated": not r["ok"], "detail": r["status"]}
    for m in r["mism"]:
        if m["pred"] == case["pred"] and m["fn"] == case["fn"]:
            return {"violated": True, "detail": m}
    return {"violated": False, "detail": {"mismatches": len(r["mism"])}}
