"""C10 - missing-range requests cover exactly the missing chunks.

Space: chunk tables of N <= 8 (thorough 10) data chunks, three size vectors per N (all one byte and identical, distinct
growing sizes, block-sized), with and without a dictionary; ALL 2^N markings of the data chunks (dictionary valid or
missing too when present) x limits {-1, 0, 1, 2, 3, 7, 127, 255}; markings are produced through the public flow only
(put exactly the wanted chunks on disk, zck_find_valid_chunks, zck_reset_failed_chunks, read the flags back), plus the
no-scan state in which everything is missing.  Large tables: thousands of one-byte chunks, alternating, with the first
extent shifted through every phase so that the rendered text crosses the growth thresholds of the string builder at
every alignment.
Oracle (set arithmetic on the reference chunk table): ranges ascending, disjoint, non-adjacent, inclusive; union =
extents of a file-order prefix of the missing chunks (all if unlimited, >= 1 chunk if any is missing); at most
max(limit, 1) ranges; never a header or valid byte; the string is exactly the start-end list.  The range index is
observed behaviourally: feeding the payload of exactly those ranges to the write callback makes exactly the covered
chunks valid and changes nothing else.
"""
PROMOTE = True   # quick runs the former thorough bound (seconds); thorough goes deeper where a deeper bound is defined (ctx.deep)
import itertools
import core, zckref, universe

LIMITS = [-1, 0, 1, 2, 3, 7, 127, 255]


def tables(ctx):
    nmax = 8 if ctx.tier == "quick" else (12 if ctx.deep else 10)
    blk = core.blocks(ctx.seed)
    out = []
    for n in range(0, nmax + 1):
        vecs = [("ones", [b"x"] * n),
                ("grow", [bytes([65 + i]) * (i + 1) for i in range(n)]),
                ("blocks", [blk["abcd"[i % 4]] + bytes([i]) for i in range(n)])]
        if ctx.tier == "quick" and n > 6:
            vecs = vecs[:2]
        for vname, pieces in vecs:
            for d in (b"", universe.DELTA_DICT[:9]):
                if n == 0 and vname != "ones":
                    continue
                f, h, body = zckref.build_file(pieces, comp=0, htype=1, ctype=3, dict_=d)
                out.append(("%s%d%s" % (vname, n, "+dict" if d else ""), f))
    # zstd tables with chunks whose content is empty: they have stored bytes (an empty frame) and size 0 - what is requested
    # goes by stored bytes
    for n, pieces in ((3, [b"abc", b"", b"defg"]), (4, [b"", b"xy", b"", b"z" * 40]), (5, [b"q", b"", b"", b"rr", b""])):
        f, h, body = zckref.build_file(pieces, comp=2, htype=1, ctype=3)
        out.append(("zempty%d" % n, f))
    # entries without stored bytes in the middle of the index (the reader accepts them; the library's own writer never makes one):
    # the missing chunks on either side are neighbours in the file although not in the index, and must come out as one range
    for name, sizes in (("zmid3", (100, 0, 100)), ("zmid4", (50, 0, 0, 60)), ("zmid5", (10, 0, 20, 0, 30)), ("zmid6", (7, 9, 0, 11, 13, 0))):
        pieces = [bytes([65 + i]) * n for i, n in enumerate(sizes)]
        f, h, body = zckref.build_file(pieces, comp=0, htype=1, ctype=3)
        for c in h.chunks[1:]:
            if c.clen == 0:
                c.digest = bytes(len(c.digest)); c.udigest = bytes(len(c.digest))
        out.append((name, h.build() + body))
    return out


def parse_ranges(s):
    """'a-b,c-d' -> [(a,b)] or None if not exactly of that form"""
    if s == "":
        return []
    out = []
    for item in s.split(","):
        parts = item.split("-")
        if len(parts) != 2 or not parts[0].isdigit() or not parts[1].isdigit():
            return None
        if (parts[0] != "0" and parts[0][0] == "0") or (parts[1] != "0" and parts[1][0] == "0"):
            return None
        out.append((int(parts[0]), int(parts[1])))
    return out


def judge(ext, flags, limit, count, s, fed, flags2, tsame):
    """returns (predicate, text) or None.  ext: [(off, len)] per chunk; flags: string of + / 0"""
    rs = parse_ranges(s)
    if rs is None:
        return "string-not-a-range-list", "rendered %r" % s[:80]
    cands = [[i for i, f in enumerate(flags) if f == "0" and ext[i][1] > 0]]
    if "!" in flags:
        # the statement speaks of valid and missing chunks; a chunk marked failed (rejected, not yet reset) may be left
        # out (this library) or requested like a missing one - both readings are accepted, everything else is demanded
        cands.append([i for i, f in enumerate(flags) if f != "+" and ext[i][1] > 0])
    for (a, b) in rs:
        if a > b:
            return "range-inverted", "range %d-%d" % (a, b)
    for (a, b), (c, d) in zip(rs, rs[1:]):
        if c <= b:
            return "ranges-overlap-or-unordered", "%d-%d then %d-%d" % (a, b, c, d)
        if c == b + 1:
            return "ranges-adjacent", "%d-%d then %d-%d" % (a, b, c, d)
    if len(rs) > max(limit, 1) and limit >= 0:
        return "more-ranges-than-limit", "%d ranges, limit %d" % (len(rs), limit)
    covered = set()
    for a, b in rs:
        covered.update(range(a, b + 1))
    # union must be the extents of a prefix of the missing chunks
    for missing in cands:
        want = set()
        k = 0
        ok = (covered == want)
        while not ok and k < len(missing):
            off, ln = ext[missing[k]]
            want.update(range(off, off + ln))
            k += 1
            ok = (covered == want)
        if ok:
            break
    if not ok:
        return "union-is-not-a-prefix-of-missing-extents", "ranges %s, missing chunks %s" % (s[:80], cands[0][:12])
    if missing and k == 0:
        return "nothing-requested-though-chunks-missing", "missing %s" % missing[:12]
    if limit < 0 and k != len(missing):
        return "unlimited-request-incomplete", "covers %d of %d missing chunks" % (k, len(missing))
    if count is not None and count != len(rs) and not (count == 0 and not rs):
        return "range-count-differs", "zck_get_range_count=%d, %d ranges rendered" % (count, len(rs))
    if fed is not None:
        r, n = fed
        if r != n:
            return "feeding-requested-payload-fails", "callback returned %d of %d" % (r, n)
        exp2 = "".join("+" if (f == "+" or i in missing[:k]) else f for i, f in enumerate(flags))
        if flags2 != exp2:
            return "fed-payload-validates-other-chunks", "flags %s -> %s, expected %s" % (flags, flags2, exp2)
        if tsame != "1":
            return "target-bytes-wrong-after-feed", "bytes outside/inside covered extents differ"
    return None


def fail_source(p, f, mark):
    """a source file (reference writer) that lists exactly the chunks marked '!' - same digest, stored size and size -
    but holds other bytes: zck_copy_chunks from it rejects them, which is the public way into the 'failed' marking"""
    chunks = [zckref.Chunk(bytes(len(p.chunks[0].digest)), 0, 0, bytes(len(p.chunks[0].digest)))]
    body = bytearray()
    for i, (m, c) in enumerate(zip(mark, p.chunks)):
        if m == "!" and c.clen > 0:
            chunks.append(zckref.Chunk(c.digest, c.clen, c.ulen, c.udigest))
            body += bytes([0x55]) * c.clen
    h = zckref.Header(p.htype, p.ctype, p.flags, p.comp, chunks, bytes(zckref.HASH_SIZES[p.htype]))
    return h.build() + bytes(body)


def work(arg):
    name, f, cases = arg
    p = zckref.parse(f)
    ext = zckref.extents(p)
    job = ["file %s" % f.hex()] + ["case mark=%s limit=%d noscan=%d feed=%d" % c[:4] + (" fsrc=%s" % fail_source(p, f, c[0]).hex() if "!" in c[0] else "")
                                    + (" pmark=%s" % c[4] if len(c) > 4 and c[4] else "") + (" detached=1" if len(c) > 5 and c[5] else "") for c in cases]
    cs = core.drv("ranges", "\n".join(job) + "\n", timeout=3000)
    res = {"n": 0, "multi": 0, "viol": [], "outcomes": set(), "exact": 0}
    for c, cc in zip(cs, cases):
        mark, limit, noscan, feed = cc[:4]
        res["n"] += 1
        g = c.first("G")
        case = {"name": name, "tier_gen": None if len(f) < 20000 else name, "file": f.hex() if len(f) < 20000 else None, "mark": mark, "limit": limit, "noscan": noscan, "feed": feed, "pmark": cc[4] if len(cc) > 4 else None, "detached": bool(len(cc) > 5 and cc[5])}
        klass = {"table": name.rstrip("0123456789+dict") if len(f) < 20000 else "large", "none_missing": "0" not in mark and not noscan,
                 "noscan": bool(noscan)}
        if len(cc) > 5 and cc[5]:
            klass["detached"] = True
        if not c.done or g is None:
            res["viol"].append((dict(klass, check="C10", predicate="crash-or-hang"), "%s mark=%s limit=%d: %s" % (name, mark[:40], limit, c.status()), case))
            continue
        if g.get("open") != "1" or "str" not in g:
            res["viol"].append((dict(klass, check="C10", predicate="no-result"), "%s mark=%s limit=%d: %s" % (name, mark[:40], limit, g), case))
            continue
        flags = g["flags"]
        if not noscan:
            # only reachable markings are judged; the flow must reproduce the marking we asked for
            want = "".join("+" if (m == "+" or ext[i][1] == 0) else m for i, m in enumerate(mark))
            if len(cc) > 5 and cc[5]:
                # through a detached header only the dictionary entry is scanned; every other entry stays unknown (an entry
                # without stored bytes included)
                want = want[0] + "0" * (len(mark) - 1)
            if flags != want and "!" in mark:
                pass  # identical chunks share a digest: rejecting one rejects its twins; the marking that was reached is judged
            elif flags != want:
                res["viol"].append((dict(klass, check="C10", predicate="scan-did-not-produce-marking"), "%s: wanted %s got %s" % (name, want[:40], flags[:40]), case))
                continue
        s = "" if g["str"] in ("-", "NULL") else core.unhex(g["str"]).decode("latin1")
        if g["str"] == "NULL":
            res["viol"].append((dict(klass, check="C10", predicate="no-string"), "%s mark=%s: zck_get_range_char returned NULL" % (name, mark[:40]), case))
            continue
        fed = None
        if "fed" in g and "/" in g["fed"]:
            fed = tuple(int(x) for x in g["fed"].split("/"))
        elif "fed" in g:
            res["viol"].append((dict(klass, check="C10", predicate="string-not-a-range-list"), "%s: %r" % (name, s[:80]), case))
            continue
        v = judge(ext, flags, limit, int(g["count"]), s, fed, g.get("flags2"), g.get("tsame"))
        nr = s.count(",") + 1 if s else 0
        if nr >= 2:
            res["multi"] += 1
        res["outcomes"].add((min(nr, 4), limit >= 0 and nr == max(limit, 1)))
        if len(s) > 30000:
            cum = {i + 1 for i, ch in enumerate(s) if ch == ","} | {len(s) + 1}
            if cum & {32768, 49152, 73728}:
                res["exact"] += 1
        if v:
            res["viol"].append((dict(klass, check="C10", predicate=v[0], limit_class="unlimited" if limit < 0 else "limited"),
                                "%s mark=%s limit=%d: %s" % (name, mark[:40], limit, v[1]), case))
    return res


def large_tables(ctx):
    """(name, file, mark): alternating one-byte chunks behind a leading valid chunk whose size sweeps the phase"""
    out = []
    phases = range(0, 28, 2) if ctx.tier == "quick" else range(0, 28)
    n = 5400
    for ph in phases:
        pieces = [b"L" * (ph + 1)] + [bytes([1 + (i % 250)]) for i in range(n)]
        f, h, body = zckref.build_file(pieces, comp=0, htype=1, ctype=3)
        mark = "+" + "+" + "".join("0+"[i % 2] for i in range(n))
        out.append(("large5400/phase%d" % ph, f, mark))
    if ctx.tier == "thorough":
        n = 7600
        for k in range(0, 10):
            # first missing offset just below 10^6 so that items change from 14 to 16 characters after k ranges
            rest = [bytes([1 + (i % 250)]) for i in range(n)]
            lead = 1000000 - 2 * k
            for _ in range(4):  # the header length depends on the width of the lead size field: iterate to the fixpoint
                f, h, body = zckref.build_file([b"L" * lead] + rest, comp=0, htype=1, ctype=3)
                hl = zckref.parse(f).header_len
                lead = 1000000 - hl - 2 * k
            assert zckref.parse(f).header_len + lead + 2 * k == 1000000
            mark = "+" + "+" + "".join("0+"[i % 2] for i in range(n))
            out.append(("large7600/k%d" % k, f, mark))
    return out


def run(ctx):
    tabs = tables(ctx)
    jobs = []
    for name, f in tabs:
        p = zckref.parse(f)
        n = len(p.chunks)
        has_dict = p.chunks[0].clen > 0
        cases = []
        for bits in itertools.product("+0", repeat=(n if has_dict else n - 1)):
            mark = ("" if has_dict else "+") + "".join(bits)
            for lim in LIMITS:
                cases.append((mark, lim, 0, 1))
        for lim in LIMITS:
            cases.append(("0" * n, lim, 1, 1))
        # the same table seen through its detached header: the scan concerns the dictionary only, every data chunk is missing
        # (what a client that holds nothing but the header asks for first)
        for dm in ("+0" if has_dict else "+"):
            for lim in LIMITS:
                cases.append((dm + "0" * (n - 1), lim, 0, 0, None, 1))
        for lim in LIMITS:
            cases.append(("0" * n, lim, 1, 0, None, 1))
        # a second request on the same context after the target changed on disk and was scanned again (every ordered pair of
        # markings of the smaller tables): nothing of the first request may survive into the second
        nd = n if has_dict else n - 1
        if nd <= (3 if ctx.tier == "quick" else 4) and not name.startswith("ones"):
            ms = [("" if has_dict else "+") + "".join(b) for b in itertools.product("+0", repeat=nd)]
            for m1 in ms:
                for m2 in ms:
                    if m1 != m2:
                        for lim in (-1, 1, 2):
                            cases.append((m2, lim, 0, 1, m1))
        # three-valued markings (valid / missing / failed) for the smaller tables
        nd = n if has_dict else n - 1
        if nd <= (5 if ctx.tier == "quick" else (8 if ctx.deep else 7)):
            for bits in itertools.product("+0!", repeat=nd):
                if "!" not in bits:
                    continue
                mark = ("" if has_dict else "+") + "".join(bits)
                for lim in LIMITS:
                    cases.append((mark, lim, 0, 1))
        for ch in core.chunks(cases, 1024):
            jobs.append((name, f, ch))
    ctx.bounds = {"tables": len(tabs), "max_chunks": 8 if ctx.tier == "quick" else (12 if ctx.deep else 10), "limits": LIMITS,
                  "markings": "all 2^N per table, via the public scan flow, plus the no-scan state"}
    ctx.rule = ("case = (chunk table, marking, limit); non-trivial = request with >= 2 separate ranges")
    exact = 0
    for r in core.pmap(work, jobs):
        ctx.states += r["n"]; ctx.evaluations += r["n"]; ctx.transitions += r["n"] * 4; ctx.nontrivial += r["multi"]
        ctx.outcomes |= r["outcomes"]
        for sig, what, case in r["viol"]:
            ctx.violation(sig, what, case)
    lt = large_tables(ctx)
    ljobs = [(name, f, [(mark, -1, 0, 1), (mark, 255, 0, 0)]) for name, f, mark in lt]
    for r in core.pmap(work, ljobs):
        ctx.states += r["n"]; ctx.evaluations += r["n"]; ctx.transitions += r["n"] * 4; ctx.nontrivial += r["multi"]
        exact += r["exact"]
        for sig, what, case in r["viol"]:
            ctx.violation(sig, what, case)
    ctx.extra["large_tables"] = len(lt)
    ctx.extra["large_renderings_ending_exactly_at_a_growth_threshold"] = exact
    ctx.sample({"table": "grow4", "marking": "+0+00", "limit": 1, "expect": "one range covering chunk 1 only (or 1 alone); count <= 1"})
    ctx.sample({"table": "ones8+dict", "marking": "0" * 9, "limit": -1, "expect": "a single range over the whole body"})


def replay(case, quiet=True):
    if case.get("file") is None:
        class T:  # regenerate the large table from its name
            tier = "thorough"; seed = 0
        for name, f, mark in large_tables(T):
            if name == case["name"]:
                r = work((name, f, [(case["mark"], case["limit"], case["noscan"], case["feed"])]))
                return {"violated": bool(r["viol"]), "detail": [v[1] for v in r["viol"]]}
        return {"violated": False, "detail": "unknown large table"}
    r = work((case["name"], bytes.fromhex(case["file"]), [(case["mark"], case["limit"], case["noscan"], case["feed"]) + ((case["pmark"],) if case.get("pmark") else ((None, 1) if case.get("detached") else ()))]))
    return {"violated": bool(r["viol"]), "detail": [v[1] for v in r["viol"]]}
