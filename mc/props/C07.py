"""C07 - pinned header validation accepts exactly the authenticated header.

Space: for every overall digest type a base file; (a) the correct hex digest with every byte value 0..255 at every
position; (b) every history: permutation of a subset of {type pin, digest pin, length pin} with values from small
domains (incl. off-by-one lengths, wrong types, wrong-length / non-hex / case-changed digests), followed by 0-2
zck_validate_lead calls, zck_read_lead and zck_read_header; (c) every single-byte header substitution under full
pinning.  Oracle: a three-line acceptance model; where the API refuses an *ordering* the model makes no claim and
follows the library's answer.
"""
PROMOTE = True   # quick runs the former thorough bound (seconds); thorough goes deeper where a deeper bound is defined (ctx.deep)
import itertools
import core, zckref, universe
from universe import Cfg

HEX = set(b"0123456789abcdefABCDEF")


def bases(ctx):
    out = []
    for fh in (0, 1, 2, 3):
        f = universe.ref_file("ab", Cfg(0, b"", 0, 3, fh), ctx.seed)
        out.append(("ref:ab:fh%d" % fh, f))
    lf = universe.lib_files([("aab", Cfg(2, universe.DELTA_DICT, 0, 3, 1))], ctx.seed)[0]
    out.append(("lib:aab:zstd-dict", lf))
    # value-dependent shape: stored digests that begin with 0x00 (a str*-style comparison ends there) or contain one early
    for fh, pos in ((1, 0), (0, 0), (2, 1), (3, 2)):
        out.append(("ref:zero-hdigest@%d:fh%d" % (pos, fh), universe.zero_hdr_file(Cfg(0, b"", 0, 3, fh), ctx.seed, pos=pos)))
    return out


def digest_values(p, thorough):
    good = p.hdigest.hex()
    L = len(good)
    vals = [("ok-lower", good), ("ok-upper", good.upper()), ("ok-mixed", "".join(c.upper() if i % 2 else c for i, c in enumerate(good))),
            ("short1", good[:-1]), ("short2", good[:-2]), ("long1", good + "0"), ("double", good * 2), ("empty", ""),
            ("one", good[:1]), ("nonhex-g", good[:3] + "g" + good[4:]), ("nonhex-colon", good[:3] + ":" + good[4:]),
            ("nonhex-at", good[:-1] + "@"), ("nonhex-slash", "/" + good[1:]), ("nonhex-nul", good[:5] + "\0" + good[6:])]

    def off(i):
        c = good[i]
        n = "%x" % ((int(c, 16) + 1) % 16)
        return good[:i] + n + good[i + 1:]
    pos = range(L) if thorough else (0, 1, L // 2, L - 2, L - 1)
    for i in pos:
        vals.append(("nibble-off@%d" % i, off(i)))
    return vals


def multi_digest_values(p):
    """digests that differ from the stored one in two or more bytes, chosen so that aggregate comparisons (sums, xor
    folds, word-wise compares, prefix/suffix compares) cannot tell them from the right one"""
    d = p.hdigest
    n = len(d)
    out = []
    for i, j in itertools.combinations(range(n), 2):
        if j - i in (1, 2, 3, 4, 7, 8, 16) or i == 0 or j == n - 1:
            for delta in (0x01, 0x80, 0xff):
                x = bytearray(d); x[i] ^= delta; x[j] ^= delta
                out.append(("xor-pair@%d,%d" % (i, j), bytes(x).hex()))
            x = bytearray(d); x[i] = (x[i] + 1) & 0xff; x[j] = (x[j] - 1) & 0xff
            out.append(("sum-pair@%d,%d" % (i, j), bytes(x).hex()))
            if d[i] != d[j]:
                x = bytearray(d); x[i], x[j] = x[j], x[i]
                out.append(("swap@%d,%d" % (i, j), bytes(x).hex()))
    out.append(("reversed", d[::-1].hex()))
    out.append(("rotated", (d[1:] + d[:1]).hex()))
    out.append(("all-xor-ff", bytes(b ^ 0xff for b in d).hex()))
    for k in (1, 4, 8, n // 2):
        out.append(("tail-%d-zero" % k, (d[:-k] + bytes(k)).hex()))
        out.append(("head-%d-zero" % k, (bytes(k) + d[k:]).hex()))
    return [(nm, v) for nm, v in out if bytes.fromhex(v) != d]


def histories(p, thorough):
    ftype = p.htype
    flen = p.header_len
    tvals = [None, 0, 1, 2, 3, 4, 100, -1]
    dvals = [None] + digest_values(p, thorough)
    lvals = [None, flen, flen - 1, flen + 1, 0, p.lead_len, p.hsize]
    if not thorough:
        tvals = [None, ftype, (ftype + 1) % 4, 4, -1]
        lvals = [None, flen, flen - 1, flen + 1, p.lead_len]
    for t, d, l in itertools.product(tvals, dvals, lvals):
        ops = []
        if t is not None:
            ops.append(("T", t))
        if d is not None:
            ops.append(("D", d))
        if l is not None:
            ops.append(("L", l))
        orders = set(itertools.permutations(ops))
        for order in orders:
            for k in ((0, 1, 2) if (thorough or (d and d[0].startswith("ok")) or d is None) else (0,)):
                yield list(order) + [("V", None)] * k + [("R", None), ("H", None)]


def enc_ops(ops):
    out = []
    for o, v in ops:
        if o == "T":
            out.append("T%d" % v)
        elif o == "L":
            out.append("L%d" % v)
        elif o == "D":
            s = v[1].encode("latin1")
            out.append("D" + (s.hex() or "-"))
        else:
            out.append(o)
    return ",".join(out)


def model(p, ops, res, palt=None):
    """returns list of (op index, claim, expected, got) for violated claims"""
    ptype = pdig = plen = None
    dead = False
    lead_ok = False
    bad = []
    for i, ((o, v), r) in enumerate(zip(ops, res)):
        ok = r.startswith("1")
        if o == "T":
            if ok and pdig is not None and v != ptype:
                # another type accepted while a digest of the old type's size is pinned: what that means for the digest is
                # the implementation's business - no claim about the rest of this history
                break
            if ok:
                ptype = v
        elif o == "L":
            if ok:
                plen = v
        elif o == "D":
            s = v[1].encode("latin1")
            if ptype in zckref.HASH_SIZES and not dead and pdig is None:
                exp = (len(s) == 2 * zckref.HASH_SIZES[ptype]) and all(ch in HEX for ch in s)
                if ok != exp:
                    bad.append((i, "digest-setter-accepts-iff-right-length-and-hex:" + v[0].split("@")[0], exp, ok))
            if ok:
                try:
                    pdig = bytes.fromhex(s.decode("latin1"))
                except ValueError:
                    pdig = b"<non-hex accepted>"
        elif o == "W":
            p = palt          # the file behind the descriptor is now the other one
        elif o == "I":
            # the context is handed a file again: what was pinned stays pinned (nothing un-pins but the caller); the lead has
            # to be read anew.  A library that refuses to take a second file makes no claim.
            if not ok:
                break
            lead_ok = False
            dead = True     # from here on only "nothing unequal to the pins gets through" is claimed: whether a context that has
                            # opened a file takes another one at all (this library refuses the second header) is its business
        elif o in ("V", "R"):
            exp = (ptype is None or ptype == p.htype) and (pdig is None or pdig == p.hdigest) and \
                  (plen is None or plen == p.header_len)
            if dead:
                if ok and not exp:
                    bad.append((i, "lead-accepted-with-unequal-pin", False, True))
            elif ok != exp:
                pins = "+".join(n for n, x in (("type", ptype), ("digest", pdig), ("length", plen)) if x is not None) or "none"
                bad.append((i, ("lead-accepted-with-unequal-pin:" if ok else "lead-refused-though-all-pins-equal:") + pins, exp, ok))
            if o == "R":
                lead_ok = ok
        elif o == "H":
            exp = lead_ok
            if ok and not lead_ok:
                bad.append((i, "header-read-after-refused-lead", False, True))
            elif not ok and lead_ok and not dead:
                bad.append((i, "valid-header-refused-after-accepted-lead", True, False))
        if r.endswith("x"):
            dead = True
    return bad


def run_hist(arg):
    name, base, hists = arg[:3]
    alt = arg[3] if len(arg) > 3 else None
    job = ["base %s" % base.hex()] + (["alt %s" % alt.hex()] if alt else []) + ["seq %s" % enc_ops(h) for h in hists]
    cs = core.drv("pin", "\n".join(job) + "\n")
    return name, [(c.done, c.status(), (c.first("P") or {}).get("res", "").split(",")) for c in cs]


def run_dsub(arg):
    name, base, t, good = arg
    job = ["base %s" % base.hex()] + ["dsub type=%d digest=%s pos=%d" % (t, good.encode().hex(), i) for i in range(len(good))]
    cs = core.drv("pin", "\n".join(job) + "\n")
    return name, [(c.done, c.status(), c.first("Q")) for c in cs]


def run(ctx):
    thorough = ctx.tier == "thorough"
    bs = bases(ctx)
    ctx.rule = ("case = (base file, pin history) or (base, digest position, byte value) or (base, header substitution under "
                "full pinning); non-trivial = history in which at least two pins were accepted or a digest string differs "
                "from the correct one in exactly one character")
    # (a) every byte value at every position of the digest string
    dargs = []
    for name, b in bs:
        p = zckref.parse(b)
        dargs.append((name, b, p.htype, p.hdigest.hex()))
    for (name, outs), (n2, b, t, good) in zip(core.pmap(run_dsub, dargs), dargs):
        for pos, (done, st, q) in enumerate(outs):
            if not done or q is None:
                ctx.violation({"check": "C07", "predicate": "crash", "part": "dsub"}, "crash in digest pin: %s" % (st,),
                              {"kind": "dsub", "base": b.hex(), "type": t, "good": good, "pos": pos})
                continue
            for v in range(256):
                ctx.states += 1; ctx.transitions += 3; ctx.evaluations += 1
                ishex = v in HEX
                setok = q["set"][v] == "1"
                leadok = q["lead"][v] == "1"
                same = ishex and int(chr(v), 16) == int(good[pos], 16)
                ctx.nontrivial += 1
                ctx.outcomes.add((setok, leadok))
                if setok != ishex:
                    cls = "non-hex-accepted" if setok else "hex-refused"
                    ctx.violation({"check": "C07", "predicate": "digest-setter:" + cls, "char_class": char_class(v)},
                                  "%s: digest string with byte 0x%02x (%r) at position %d: setter %s" % (
                                      name, v, chr(v), pos, "accepted" if setok else "refused"),
                                  {"kind": "dsub", "base": b.hex(), "type": t, "good": good, "pos": pos, "val": v})
                elif leadok != same:
                    ctx.violation({"check": "C07", "predicate": "lead-accepted-with-unequal-digest" if leadok else "lead-refused-with-equal-digest",
                                   "char_class": char_class(v)},
                                  "%s: digest string with %r at position %d (correct %r): lead %s" % (
                                      name, chr(v), pos, good[pos], "accepted" if leadok else "refused"),
                                  {"kind": "dsub", "base": b.hex(), "type": t, "good": good, "pos": pos, "val": v})
    # (b) histories
    hargs = []
    for name, b in bs:
        p = zckref.parse(b)
        hs = list(histories(p, thorough))
        # (b2) digests that differ from the stored one in several bytes at once
        for nm, v in multi_digest_values(p):
            hs.append([("T", p.htype), ("D", (nm, v)), ("R", None), ("H", None)])
            if nm.startswith(("swap", "sum-pair")):
                hs.append([("T", p.htype), ("D", (nm + "-upper", v.upper())), ("L", p.header_len), ("V", None), ("R", None), ("H", None)])
        # (b3) options set more than once: a pin that was accepted stays pinned unless a later call replaces it
        good = ("ok-lower", p.hdigest.hex())
        badd = ("nibble-off@0", ("%x" % ((int(p.hdigest.hex()[0], 16) + 1) % 16)) + p.hdigest.hex()[1:])
        other = (p.htype + 1) % 4
        for d1, d2 in ((good, None), (badd, None), (good, badd), (badd, good)):
            for t2 in (p.htype, other):
                rep = [("T", p.htype), ("D", d1), ("T", t2)] + ([("D", d2)] if d2 else [])
                for tail in ([], [("L", p.header_len)], [("V", None)]):
                    hs.append(rep + tail + [("R", None), ("H", None)])
        # a refused value must leave the pin that was accepted before it in place
        for l1 in (p.header_len, p.header_len + 1):
            for l2 in (-1, -5):
                hs.append([("L", l1), ("L", l2), ("R", None), ("H", None)])
                hs.append([("T", p.htype), ("D", good), ("L", l1), ("L", l2), ("V", None), ("R", None), ("H", None)])
        for t1 in (p.htype, other):
            for t2 in (-1, 100, 4):
                hs.append([("T", t1), ("T", t2), ("R", None), ("H", None)])
        for d1 in (good, badd):
            for d2 in (("nonhex-g", "g" + p.hdigest.hex()[1:]), ("short1", p.hdigest.hex()[:-1]), ("empty", "")):
                hs.append([("T", p.htype), ("D", d1), ("D", d2), ("R", None), ("H", None)])
        for l1, l2 in ((p.header_len, p.header_len + 1), (p.header_len + 1, p.header_len), (p.header_len, p.header_len)):
            hs.append([("L", l1), ("L", l2), ("R", None), ("H", None)])
            hs.append([("T", p.htype), ("L", l1), ("D", good), ("L", l2), ("R", None), ("H", None)])
        # (b4) the file changes between validating the lead and reading it: another valid file of the same type and header
        # length (the chunks in the other order) is put behind the descriptor - the pins are still the first file's
        alt = None
        if name.startswith("ref:ab:"):
            fh = int(name[-1])
            alt = universe.ref_file("ba", Cfg(0, b"", 0, 3, fh), ctx.seed)
            pa_ = zckref.parse(alt)
            if pa_.header_len == p.header_len and pa_.hdigest != p.hdigest:
                for pre in ([("T", p.htype), ("D", good)], [("T", p.htype), ("D", good), ("L", p.header_len)], [("D", good)], [("L", p.header_len)], []):
                    for mid in ([("V", None)], [("V", None), ("V", None)], []):
                        hs.append(pre + mid + [("W", None), ("R", None), ("H", None)])
                        hs.append(pre + mid + [("W", None), ("V", None), ("R", None), ("H", None)])
                    # a context with a past: it has read the first file's lead (and header), then is handed the other file
                    for first in ([("R", None)], [("R", None), ("H", None)], [("V", None), ("R", None), ("H", None)]):
                        hs.append(pre + first + [("W", None), ("I", None), ("R", None), ("H", None)])
                        hs.append(pre + first + [("W", None), ("I", None), ("V", None), ("R", None), ("H", None)])
                        hs.append(pre + first + [("I", None), ("R", None), ("H", None)])
            else:
                alt = None
        for ch in core.chunks(hs, 600):
            hargs.append((name, b, ch, alt))
    # (b5) scale-dependent shape: leads that declare a header of 2^31 bytes and more (zck_read_lead reads the lead only); the
    # length pin is compared with the stored value in full - neither its low 32 bits nor a narrowed copy
    class P:
        pass
    huge = {}
    for hsize in (1 << 31, (1 << 31) + 143, (1 << 32) - 40, 1 << 32, (1 << 32) + 143, (1 << 33) + 7, (1 << 40) + 1):
        dg = zckref.digest(1, b"huge%d" % hsize)
        lead = zckref.MAGIC_FILE + zckref.enc_ci(1) + zckref.enc_ci(hsize) + dg
        q = P(); q.htype, q.hdigest, q.header_len = 1, dg, len(lead) + hsize
        nm = "lead:hsize=%d" % hsize
        huge[nm] = q
        tot = q.header_len
        hs = []
        for v in sorted({tot, tot & 0xffffffff, tot & 0x7fffffff, tot - (1 << 32), tot + (1 << 32), tot ^ (1 << 31), tot - 1, tot + 1, hsize, 143, len(lead)}):
            if v <= 0:
                continue
            hs.append([("L", v), ("R", None)])
            hs.append([("L", v), ("V", None), ("V", None), ("R", None)])
            hs.append([("T", 1), ("D", ("ok-lower", dg.hex())), ("L", v), ("V", None), ("R", None)])
        hargs.append((nm, lead, hs, None))
    bmap = dict(bs)
    for (name, outs), (n2, b, hs, alt) in zip(core.pmap(run_hist, hargs), hargs):
        p = huge[name] if name in huge else zckref.parse(b)
        palt = zckref.parse(alt) if alt else None
        for h, (done, st, res) in zip(hs, outs):
            ctx.states += 1; ctx.transitions += len(h); ctx.evaluations += 1
            if not done or len(res) != len(h):
                ctx.violation({"check": "C07", "predicate": "crash", "part": "history"}, "crash in pin history %s: %s" % (enc_ops(h), st),
                              {"kind": "hist", "base": b.hex(), "ops": [[o, v] for o, v in h]})
                continue
            acc = sum(1 for (o, v), r in zip(h, res) if o in "TDL" and r.startswith("1"))
            if acc >= 2:
                ctx.nontrivial += 1
            ctx.outcomes.add(tuple(r for (o, v), r in zip(h, res) if o in "VRH"))
            for i, claim, exp, got in model(p, h, res, palt):
                ctx.violation({"check": "C07", "predicate": claim},
                              "%s: history %s: op %d (%s): expected %s, library said %s (results %s)" % (
                                  name, describe(h), i, h[i][0], exp, got, ",".join(res)),
                              {"kind": "hist", "base": b.hex(), "ops": [[o, v] for o, v in h], "alt": alt.hex() if alt else None})
    ctx.sample({"history": describe(hargs[0][2][len(hargs[0][2]) // 2]), "base": hargs[0][0]})
    # (c) header substitutions under full pinning
    sargs = [(n, b, late) for n, b in bs[:2 if not thorough else len(bs)] for late in (0, 1)]
    for r in core.pmap(run_pinned_subst, sargs):
        ctx.states += r["mutants"]; ctx.transitions += r["mutants"]; ctx.evaluations += r["mutants"]
        if r["base_opens"] is not True:
            ctx.violation({"check": "C07", "predicate": "fully-pinned-valid-file-refused", "late": r["late"]}, "%s does not open with its own pins%s" % (
                r["name"], " set between lead and header" if r["late"] else ""), {"kind": "pinned", "base": bmap[r["name"]].hex(), "late": r["late"]})
        for pos, v in r["opened"]:
            ctx.violation({"check": "C07", "predicate": "header-mutant-opens-under-full-pinning", "late": r["late"]},
                          "%s: header byte %d := %02x opens although type, digest and length are pinned%s" % (
                              r["name"], pos, v, " (pins set between lead and header)" if r["late"] else ""),
                          {"kind": "pinned", "base": bmap[r["name"]].hex(), "pos": pos, "val": v, "late": r["late"]})
        for st in r["bad"]:
            ctx.violation({"check": "C07", "predicate": "crash", "part": "pinned-subst"}, "crash: %s" % (st,),
                          {"kind": "pinned", "base": bmap[r["name"]].hex()})
    ctx.sample({"digest_position_sweep": "type pin, then digest with byte 0x3a ':' at position 3, then read lead", "expect": "setter refuses"})
    ctx.bounds = {"bases": [n for n, _ in bs], "digest_positions": "every position x 256 values",
                  "multi_byte_digests": "xor / sum-preserving pairs, swaps, reversal, rotation, zeroed heads and tails",
                  "history_alphabet": "T{0,1,2,3,4,100,-1} D{ok x3 cases, lengths, non-hex, nibble-off} L{len, len+-1, 0, lead} x orders x V^0..2",
                  "pinned_substitutions": "all 255 at every header byte"}


def char_class(v):
    if v in HEX:
        return "hex"
    if 0x3a <= v <= 0x40:
        return "between-9-and-A"
    if 0x2a <= v <= 0x2f:
        return "below-0"
    if 0x47 <= v <= 0x60 or 0x67 <= v <= 0x7e:
        return "letter-or-punct-above-F"
    if v < 0x20 or v == 0x7f:
        return "control"
    if v >= 0x80:
        return "high"
    return "other-punct"


def describe(h):
    out = []
    for o, v in h:
        if o == "D":
            out.append("D(%s)" % v[0])
        elif o in "TL":
            out.append("%s(%s)" % (o, v))
        else:
            out.append(o)
    return " ".join(out)


def run_pinned_subst(arg):
    name, base = arg[:2]
    late = arg[2] if len(arg) > 2 else 0
    p = zckref.parse(base)
    job = ["mode adv", "pin type=%d digest=%s len=%d late=%d" % (p.htype, p.hdigest.hex().encode().hex(), p.header_len, late),
           "base %s" % base.hex(), "file %s" % base.hex(), "subst 0 %d" % p.header_len]
    cs = core.drv("openenum", "\n".join(job) + "\n")
    res = {"name": name, "opened": [], "bad": [], "mutants": 0, "base_opens": None, "late": late}
    for c in cs:
        if not c.done:
            res["bad"].append(c.status())
            continue
        if c.idx == 0:
            res["base_opens"] = c.first("E")["opened"] == "1"
        else:
            s = c.first("S")
            res["mutants"] += 255
            if s["opened"] != "-":
                res["opened"] += [(int(s["pos"]), int(v)) for v in s["opened"].split(",")]
    return res


def lead_only(base):
    """stand-in for the parse of a file that consists of a lead only (declared header of 2^31 bytes and more)"""
    class P:
        pass
    q = P()
    q.htype, o = zckref.dec_ci(base, 5)[0], 5 + zckref.dec_ci(base, 5)[1]
    hsize, n = zckref.dec_ci(base, o)
    q.hdigest = base[o + n:o + n + zckref.HASH_SIZES[q.htype]]
    q.header_len = o + n + len(q.hdigest) + hsize
    return q


def replay(case, quiet=True):
    base = bytes.fromhex(case["base"])
    try:
        p = zckref.parse(base)
    except zckref.Invalid:
        p = lead_only(base)
    if case["kind"] == "hist":
        h = [(o, tuple(v) if isinstance(v, list) else v) for o, v in case["ops"]]
        alt = bytes.fromhex(case["alt"]) if case.get("alt") else None
        name, outs = run_hist(("replay", base, [h], alt))
        done, st, res = outs[0]
        if not done or len(res) != len(h):
            return {"violated": True, "detail": st}
        bad = model(p, h, res, zckref.parse(alt) if alt else None)
        return {"violated": bool(bad), "detail": {"results": res, "claims": bad}}
    if case["kind"] == "dsub":
        cs = core.drv("pin", "base %s\ndsub type=%d digest=%s pos=%d\n" % (base.hex(), case["type"], case["good"].encode().hex(), case["pos"]))
        q = cs[0].first("Q")
        if not cs[0].done or q is None:
            return {"violated": True, "detail": cs[0].status()}
        if "val" not in case:
            return {"violated": False}
        v = case["val"]
        ishex = v in HEX
        setok = q["set"][v] == "1"; leadok = q["lead"][v] == "1"
        same = ishex and int(chr(v), 16) == int(case["good"][case["pos"]], 16)
        return {"violated": setok != ishex or leadok != same, "detail": {"setter": setok, "lead": leadok, "hex": ishex}}
    if case["kind"] == "pinned":
        r = run_pinned_subst(("replay", base, case.get("late", 0)))
        if "pos" in case:
            return {"violated": (case["pos"], case["val"]) in r["opened"], "detail": r["opened"][:5]}
        return {"violated": r["base_opens"] is not True or bool(r["bad"]), "detail": r["bad"][:2]}
