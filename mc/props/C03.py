"""C03 - memory safety and termination on arbitrary file input.

Space (deviation-bounded, structure-aware): from every base file (tiny universe: none / zstd / dictionary / uncompressed-
source flag / optional elements / detached header) the reference writer emits CORRECTLY SEALED headers in which one
(thorough: two) fields deviate, each field ranging over {0..5, 127, 128, 255, 256, actual+-1, header/file lengths +-1,
2^31-1, 2^31, 2^32-1, 2^32, 2^63-1, 2^63, 2^64-1, non-canonical encodings padded to 10 and 11 bytes, unterminated};
fields: checksum type, header size, flags, compression type, optional-element count / id / size, index size, chunk
checksum type, chunk count, every stored and uncompressed length, signature count.  Plus: index with zero entries,
header cut at every length with the size field adjusted (sealed), every raw truncation, all byte strings of length
<= 2 as a whole file; and "payload" mutants: containers in which every checksum is right but a chunk's stored bytes are not
what the decoder expects (not a frame, frame of other length, truncated, trailing garbage, skippable frame, frame that names
a dictionary id, dictionary content that starts with the zstd dictionary magic followed by garbage, ...).  On each: every public operation as a sequence of its own on a fresh context, and for files that
open every ordered pair of operations; and every tool (unzck, unzck -c, --dict, --header, zck_read_header -c / -f,
zck_delta_size in both argument orders, zck_gen_zdict, zckdl -s <file> against an unreachable URL) in-process.
Oracle: in a forked child under ASan+UBSan with an alarm: no sanitizer report, no fatal signal, no timeout (confirmed
with ten times the limit).  Any return value is acceptable.
"""
import itertools, os
import core, zckref, universe
from universe import Cfg
from zckref import Chunk, enc_ci

D = universe.DELTA_DICT
SINGLES = ["R1", "R7", "RB", "V", "D", "F", "G", "C0", "CL", "S0", "SL", "M", "Ps", "Pt", "Q", "X", "A,G,RB", "F,M,RB"]
PAIR_OPS = ["RB", "V", "D", "F", "G", "CL", "C0", "M", "Pt", "X"]


def seal_raw(raw):
    """recompute the stored header digest of raw file bytes the way a reader will check it; None if not possible"""
    try:
        off = 5
        htype, n = zckref.dec_ci(raw, off); off += n
        hsize, n2 = zckref.dec_ci(raw, off); off += n2
    except zckref.Invalid:
        return None
    if n > 10 or n2 > 10 or htype not in zckref.HASH_SIZES or hsize >= 1 << 40:
        return None
    hs = zckref.HASH_SIZES[htype]
    lead = off + hs
    if lead + hsize > len(raw) or raw[:5] not in (zckref.MAGIC_FILE, zckref.MAGIC_HDR):
        return None
    d = zckref.digest(htype, zckref.MAGIC_FILE + raw[5:off] + raw[lead:lead + hsize])
    return raw[:off] + d + raw[lead:]


def bases(ctx):
    blk = core.blocks(ctx.seed)
    specs = [("abc", Cfg(0, b"", 0, 3, 1)), ("abc", Cfg(2, b"", 0, 3, 1)), ("ab", Cfg(2, D, 0, 1, 0)), ("aab", Cfg(2, b"", 1, 1, 1)),
             # an overall digest of 16 bytes: the lead is shorter than the reader's first 25-byte read, so the header buffer is
             # filled from two reads and every length derived from "bytes read so far" differs from the lead's own size
             ("a", Cfg(0, b"", 0, 3, 3))]
    if ctx.tier == "thorough":
        specs += [("abcd", Cfg(0, D, 1, 2, 1)), ("a", Cfg(0, b"", 0, 0, 1)), ("", Cfg(2, b"", 0, 3, 1)), ("ab", Cfg(2, D, 1, 0, 2))]
    out = []
    for w, cfg in specs:
        pieces = universe.word_pieces(w, ctx.seed)
        f, h, body = zckref.build_file(pieces, comp=cfg.comp, htype=cfg.fhash, ctype=cfg.chash, flags=cfg.flags(), dict_=cfg.dict)
        out.append(("ref:%s:%s" % (w, cfg.name()), h, body, False))
    # optional elements and a detached header
    pieces = universe.word_pieces("ab", ctx.seed)
    f, h, body = zckref.build_file(pieces, comp=0, htype=1, ctype=3)
    h.flags = 2
    h.optelems = [(1, b"xy"), (200, b"")]
    out.append(("ref:ab:optional-elements", h, body, False))
    f, h, body = zckref.build_file(pieces, comp=2, htype=1, ctype=3, dict_=D, detached=True)
    out.append(("ref:ab:detached", h, body[:h.chunks[0].clen], True))
    return out


def clone(h):
    h2 = zckref.Header(h.htype, h.ctype, h.flags, h.comp, [Chunk(c.digest, c.clen, c.ulen, c.udigest) for c in h.chunks], h.data_digest,
                       list(h.optelems) if h.optelems is not None else None, h.sig_count, h.detached)
    return h2


def fields(h):
    """[(name, actual value, setter(h2, raw bytes))]"""
    F = []
    for key, act in (("htype", h.htype), ("hsize", None), ("flags", h.flags), ("comp", h.comp), ("isize", None), ("ctype", h.ctype),
                     ("count", len(h.chunks)), ("sigcount", h.sig_count)):
        F.append((key, act, (lambda h2, raw, key=key: h2.raw.__setitem__(key, raw))))
    if h.optelems is not None:
        F.append(("optcount", len(h.optelems), lambda h2, raw: h2.raw.__setitem__("optcount", raw)))
        for j, (i, d) in enumerate(h.optelems):
            F.append(("optid[%d]" % j, i, (lambda h2, raw, j=j: h2.optelems.__setitem__(j, (raw, h2.optelems[j][1])))))
            F.append(("optsize[%d]" % j, len(d), (lambda h2, raw, j=j: h2.optelems.__setitem__(j, (h2.optelems[j][0], (raw, h2.optelems[j][1]))))))
    for i, c in enumerate(h.chunks):
        F.append(("clen[%d]" % i, c.clen, (lambda h2, raw, i=i: setattr(h2.chunks[i], "raw_clen", raw))))
        F.append(("ulen[%d]" % i, c.ulen, (lambda h2, raw, i=i: setattr(h2.chunks[i], "raw_ulen", raw))))
    return F


def value_set(act, hlen, flen, small=False):
    """[(label, raw encoding)]"""
    big = [(1 << 31) - 1, 1 << 31, (1 << 32) - 1, 1 << 32, (1 << 63) - 1, 1 << 63, (1 << 64) - 1]
    if small:
        vals = {0, 1, 128, 1 << 31, 1 << 63, (1 << 64) - 1}
        if act is not None:
            vals |= {act + 1, max(0, act - 1)}
    else:
        vals = {0, 1, 2, 3, 4, 5, 127, 128, 255, 256, hlen - 1, hlen, hlen + 1, flen - 1, flen, flen + 1, flen - hlen, flen - hlen + 1} | set(big)
        if act is not None:
            vals |= {act + 1, max(0, act - 1), act * 2, act + 128}
    vals = sorted(v for v in vals if v >= 0 and v != act)
    out = [("%d" % v, enc_ci(v)) for v in vals]
    a = act if act is not None else 1
    out.append(("pad10", enc_ci(a, pad=10 - len(enc_ci(a)))))
    out.append(("pad11", enc_ci(a, pad=11 - len(enc_ci(a)))))
    if not small:
        out.append(("2^64-as-10-bytes", bytes([0] * 9 + [0x82])))
        out.append(("unterminated-12", b"\x7f" * 12))
        out.append(("unterminated-1", b"\x01"))
    return out


def build_variant(h, body, edits):
    h2 = clone(h)
    if h2.optelems is not None:
        h2.optelems = [(enc_ci(i) if not isinstance(i, bytes) else i, d) for i, d in h2.optelems]
    for setter, raw in edits:
        setter(h2, raw)
    raw = h2.build(seal=False) + body
    return seal_raw(raw) or raw


def mutants(ctx, name, h, body):
    """(label, class, bytes)"""
    thorough = ctx.tier == "thorough"
    base = h.build() + body
    hlen = len(h.build())
    out = [("intact", "intact", base)]
    F = fields(h)
    for fname, act, setter in F:
        for vl, raw in value_set(act, hlen, len(base)):
            out.append(("%s=%s" % (fname, vl), "field:" + fname.split("[")[0], build_variant(h, body, [(setter, raw)])))
    if thorough:
        for (f1, a1, s1), (f2, a2, s2) in itertools.combinations(F, 2):
            for (v1, r1), (v2, r2) in itertools.product(value_set(a1, hlen, len(base), True), value_set(a2, hlen, len(base), True)):
                out.append(("%s=%s,%s=%s" % (f1, v1, f2, v2), "pair:%s+%s" % (f1.split("[")[0], f2.split("[")[0]), build_variant(h, body, [(s1, r1), (s2, r2)])))
    # index with zero entries / without the dictionary entry
    h2 = clone(h); h2.chunks = []
    out.append(("index-without-entries", "structure", seal_raw(h2.build(seal=False) + body) or base))
    h2 = clone(h); h2.chunks = h2.chunks[1:]
    out.append(("index-without-dict-entry", "structure", seal_raw(h2.build(seal=False)) or base))
    # header cut at every length, size field adjusted, sealed
    hb = h.build(seal=False)
    p = zckref.parse(h.build())
    for cut in range(p.lead_len, len(hb)):
        h3 = clone(h)
        raw = hb[:5] + enc_ci(h.htype) + enc_ci(cut - p.lead_len) + hb[p.digest_loc:cut]
        # the size field may have changed width: rebuild positions through seal_raw
        s = seal_raw(raw)
        if s:
            out.append(("header-cut-at=%d-sealed" % cut, "sealed-cut", s))
    # ... the same cuts with an index size of 2^64-1 (ten bytes): a sum with it wraps, so a bound derived from the declared index
    # size instead of the bytes that are there lets the last integer run out of the buffer
    h4 = clone(h)
    h4.raw["isize"] = bytes([0x7f] * 9 + [0x81])
    hb4 = h4.build(seal=False)
    try:
        lead4 = zckref.parse(seal_raw(hb4 + body)).lead_len
    except Exception:
        lead4 = p.lead_len
    for cut in range(lead4 + 12, len(hb4)):
        raw = hb4[:5] + enc_ci(h.htype) + enc_ci(cut - lead4) + hb4[p.digest_loc:cut]
        s = seal_raw(raw)
        if s:
            out.append(("header-cut-at=%d-isize=2^64-1-sealed" % cut, "sealed-cut-huge-isize", s))
    for cut in range(0, len(base)):
        out.append(("truncated=%d" % cut, "truncation", base[:cut]))
    return out


def payload_mutants(ctx):
    """containers that are valid as far as every checksum goes, whose chunk payloads are not what the compression layer
    expects: (label, class, bytes).  Header, chunk and data digests are all recomputed, so only the decoder can object."""
    blk = core.blocks(ctx.seed)
    out = []
    zc = zckref.zstd_compress
    junk = core.prng_bytes(40, 11)
    dict_raw = D
    payloads = {
        "not-a-frame": lambda raw: junk,
        "frame-of-shorter-content": lambda raw: zc(raw[:-3], 3),
        "frame-of-longer-content": lambda raw: zc(raw + b"xyz", 3),
        "frame-truncated": lambda raw: zc(raw, 3)[:max(1, len(zc(raw, 3)) // 2)],
        "frame-plus-garbage": lambda raw: zc(raw, 3) + b"\0\1\2",
        "two-frames": lambda raw: zc(raw[:5], 3) + zc(raw[5:], 3),
        "skippable-frame": lambda raw: b"\x50\x2a\x4d\x18" + (8).to_bytes(4, "little") + b"12345678",
        "dict-magic-as-stored-bytes": lambda raw: b"\x37\xa4\x30\xec" + junk,
        "frame-with-dict-id": lambda raw: b"\x28\xb5\x2f\xfd\x23" + bytes([7, 0, 0, 0]) + bytes([len(raw)]) + bytes([1 | (len(raw) << 3) & 0xff, (len(raw) >> 5) & 0xff, 0]) + raw,
        "frame-huge-window": lambda raw: b"\x28\xb5\x2f\xfd\x00\xf8" + bytes([1, 0, 0]),
        "empty-frame": lambda raw: zc(b"", 3),
    }
    dicts = {"none": b"", "plain": dict_raw, "zstd-dict-magic+garbage": b"\x37\xa4\x30\xec" + core.prng_bytes(60, 5),
             "zstd-dict-magic-only": b"\x37\xa4\x30\xec", "one-byte": b"q"}
    pieces = [blk["a"], blk["b"]]
    for dname, dct in dicts.items():
        for flags in (0, 4):
            for target in ("none", "dict", 1, 2):
                for pname, fn in payloads.items():
                    if target == "none" and pname != "not-a-frame":
                        continue
                    if target == "dict" and not dct:
                        continue
                    chunks, body = [], bytearray()
                    def add(raw, stored):
                        chunks.append(Chunk(zckref.digest(1, stored), len(stored), len(raw), zckref.digest(1, raw)))
                        body.extend(stored)
                    if dct:
                        add(dct, fn(dct) if target == "dict" else zc(dct, 3))
                    else:
                        chunks.append(Chunk(bytes(32), 0, 0, bytes(32)))
                    for i, raw in enumerate(pieces, 1):
                        add(raw, fn(raw) if target == i else zc(raw, 3))   # data chunks compressed without the dictionary on purpose
                    h = zckref.Header(1, 1, flags, 2, chunks, bytes(32) if flags & 4 else zckref.digest(1, bytes(body)))
                    out.append(("payload dict=%s flags=%d chunk=%s %s" % (dname, flags, target, pname if target != "none" else "-"), "payload:" + (pname if target != "none" else "dict-" + dname),
                                h.build() + bytes(body)))
    return out


def _hang_marker(key):
    """one confirmed hang per (tool / operation) is enough: the ten-fold re-run costs 100 s, and a change that makes a tool spin
    makes it spin on hundreds of files.  The first confirmation leaves a marker (per run: the parent's pid) that the other
    worker processes see; later time-outs of the same kind are reported without being confirmed again (same signature)."""
    import hashlib, os
    d = os.path.join(core.VERIF, "build", "tmp")
    os.makedirs(d, exist_ok=True)
    return os.path.join(d, "hang-%d-%s" % (os.getppid() if core.mp.current_process().name != "MainProcess" else os.getpid(),
                                           hashlib.sha1(key.encode()).hexdigest()[:12]))


def work(arg):
    peer, items, seqs, timeout_ms = arg   # items: (label, klass, bytes)
    job = ["peer %s" % peer.hex(), "chunk 32", "timeout %d" % timeout_ms]
    for label, klass, b in items:
        job.append("case file=%s seqs=%s" % (b.hex() or "-", ";".join(seqs)))
    cs = core.drv("apiseq", "\n".join(job) + "\n", timeout=7200)
    res = {"n": 0, "tr": 0, "opened": [], "viol": [], "outcomes": set(), "skipped": 0}
    for c, (label, klass, b) in zip(cs, items):
        if c.skipped:
            res["skipped"] += 1
            continue
        res["n"] += 1
        res["tr"] += len(seqs)
        z = c.first("Z")
        if c.ok and z is not None:
            if z["opened"] == "1":
                res["opened"].append((label, klass, b))
            res["outcomes"].add(z["opened"])
            continue
        st = c.status()
        a = c.all("A")
        hkey = "api:" + (seqs[int(a[-1]["seq"])].split(",")[0] if a else "?")
        if st["timeout"] and timeout_ms < 100000 and not os.path.exists(_hang_marker(hkey)):
            r2 = work((peer, [(label, klass, b)], seqs, timeout_ms * 10))
            res["viol"] += r2["viol"]
            if any(v[0]["predicate"] == "hang" for v in r2["viol"]):
                open(_hang_marker(hkey), "w").close()
            continue
        seq = seqs[int(a[-1]["seq"])] if a else "?"
        site = ""
        for ln in st["san"].split("\n"):
            if "/src/" in ln and " in " in ln:
                site = ln.split(" in ")[1].split(" ")[0]
                break
        pred = "hang" if st["timeout"] else ("sanitizer-report" if st["san"] else "fatal-signal")
        res["viol"].append(({"check": "C03", "predicate": pred, "class": klass, "site": site, "op": seq.split(",")[0]},
                            "%s, operations %s: %s" % (label, seq, st), {"file": b.hex(), "seqs": [seq], "label": label, "klass": klass, "api": True}))
    return res


TOOLS = [("unzck", ["f.zck"]), ("unzck", ["-c", "f.zck"]), ("unzck", ["--dict", "f.zck"]), ("unzck", ["--header", "f.zck"]),
         ("zck_read_header", ["-c", "f.zck"]), ("zck_read_header", ["-f", "f.zck"]), ("zck_delta_size", ["f.zck", "peer.zck"]),
         ("zck_delta_size", ["peer.zck", "f.zck"]), ("zck_gen_zdict", ["-d", ".", "f.zck"]),
         # the same with full debug logging: every zck_log() call formats its arguments (digests, sizes taken from the file)
         ("unzck", ["-vvv", "-c", "f.zck"]), ("zck_read_header", ["-vvv", "-c", "f.zck"]), ("zck_delta_size", ["-vv", "f.zck", "peer.zck"])]
TOOLS_NET = [("zckdl", ["-s", "f.zck", "http://127.0.0.1:1/x.zck"])]


def work_tools(arg):
    peer, items, tools, timeout_ms = arg
    job = ["chunk 16", "timeout %d" % timeout_ms]
    meta = []
    for label, klass, b in items:
        job += ["clear", "file f.zck %s" % (b.hex() or "-"), "file peer.zck %s" % peer.hex()]
        for tool, args in tools:
            job.append("case tool=%s args=%s" % (tool, ",".join(a.encode().hex() for a in args)))
            meta.append((label, klass, b, tool, args))
    cs = core.drv("tool", "\n".join(job) + "\n", timeout=7200)
    res = {"n": 0, "tr": 0, "opened": [], "viol": [], "outcomes": set(), "skipped": 0}
    for c, (label, klass, b, tool, args) in zip(cs, meta):
        if c.skipped:
            res["skipped"] += 1
            continue
        res["n"] += 1
        res["tr"] += 1
        l = c.first("L")
        st = c.status()
        # a tool's assert() on a failed allocation aborts: that is an error indication, not undefined behaviour
        clean = c.done and st["san"] == "" and l is not None and l["sig"] == "0"
        aborted = "AddressSanitizer: ABRT" in st["san"] and "runtime error" not in st["san"] and st["san"].count("ERROR: AddressSanitizer") == 1
        if clean or aborted or (l is not None and l["sig"] == "6" and st["san"] == ""):
            res["outcomes"].add((tool, l["exit"] if l else "?"))
            continue
        hkey = "tool:%s %s" % (tool, " ".join(a for a in args if a.startswith("-")))
        if st["timeout"] and timeout_ms < 100000 and not os.path.exists(_hang_marker(hkey)):
            r2 = work_tools((peer, [(label, klass, b)], [(tool, args)], timeout_ms * 10))
            res["viol"] += r2["viol"]
            if any(v[0]["predicate"] == "hang" for v in r2["viol"]):
                open(_hang_marker(hkey), "w").close()
            continue
        site = ""
        for ln in st["san"].split("\n"):
            if "/src/" in ln and " in " in ln:
                site = ln.split(" in ")[1].split(" ")[0]
                break
        pred = "hang" if st["timeout"] else ("sanitizer-report" if st["san"] else "fatal-signal")
        res["viol"].append(({"check": "C03", "predicate": pred, "class": klass, "site": site, "tool": tool + " " + " ".join(a for a in args if a.startswith("-"))},
                            "%s given to %s %s: %s" % (label, tool, " ".join(args), st),
                            {"file": b.hex(), "tool": tool, "args": args, "label": label, "klass": klass, "api": False}))
    return res


def run(ctx):
    import glob
    for f in glob.glob(os.path.join(core.VERIF, "build", "tmp", "hang-%d-*" % os.getpid())):
        os.remove(f)
    thorough = ctx.tier == "thorough"
    peer = universe.ref_file("abc", Cfg(2, b"", 0, 3, 1), ctx.seed)
    B = bases(ctx)
    items = []
    for name, h, body, detached in B:
        for label, klass, b in mutants(ctx, name, h, body):
            items.append(("%s %s" % (name, label), klass, b))
    items += payload_mutants(ctx)
    short = [bytes(x) for ln in (0, 1, 2) for x in itertools.product(range(256), repeat=ln)] if thorough else \
            [bytes(x) for ln in (0, 1) for x in itertools.product(range(256), repeat=ln)] + [bytes([0, x]) for x in range(256)] + [b"\0Z", b"\0ZCK1", b"\0ZHR1", b"\0ZCK1\x01", b"\0ZCK1\x01\x00"]
    seen = set()
    uniq = []
    for it in items:
        if it[2] not in seen:
            seen.add(it[2]); uniq.append(it)
    items = uniq
    ctx.bounds = {"bases": [b[0] for b in B], "sealed_and_raw_mutants": len(items), "short_files": len(short), "deviations": 2 if thorough else 1,
                  "operations": SINGLES, "pair_operations": PAIR_OPS, "clear_error_sequences": "X,clear-error,Y / recovering read,Y / partial read,Y", "tools": ["%s %s" % (t, " ".join(a)) for t, a in TOOLS + TOOLS_NET]}
    ctx.rule = ("case = (file bytes, operation sequences, or tool invocation) in a forked child under ASan+UBSan; non-trivial = files whose header "
                "opens (parsing got behind the checksum gate)")
    opened = []
    skipped = 0
    import time
    t0 = time.time()

    def absorb(r, count_files=True):
        nonlocal skipped
        ctx.states += r["n"]; ctx.evaluations += r["n"]; ctx.transitions += r["tr"]
        ctx.outcomes |= r["outcomes"]
        skipped += r["skipped"]
        for sig, what, case in r["viol"]:
            ctx.violation(sig, what, case)

    for r in core.pmap(work, [(peer, ch, SINGLES, 10000) for ch in core.chunks(items, 150)]):
        absorb(r)
        opened += r["opened"]
    ctx.nontrivial = len(opened)
    ctx.note("singles done %.1fs (%d files, %d open)" % (time.time() - t0, len(items), len(opened)))
    for r in core.pmap(work, [(peer, [("short " + s.hex(), "short", s) for s in ch], ["RB", "G", "V", "A,G"], 10000) for ch in core.chunks(short, 2000)]):
        absorb(r)
    ctx.note("short done %.1fs" % (time.time() - t0))
    # every ordered pair of operations on the files that open
    pairs = ["%s,%s" % (a, b) for a, b in itertools.product(PAIR_OPS, repeat=2)]
    sel = opened if thorough else opened[::3]
    for r in core.pmap(work, [(peer, ch, pairs, 20000) for ch in core.chunks(sel, 40)]):
        absorb(r)
    # an error, the error cleared, then the next call: X, clear-error, Y on one context; and a partial read in front of Y
    triples = ["%s,E,%s" % (a, b) for a in ("RB", "V", "CL", "C0", "Pt", "F") for b in ("RB", "V", "CL", "G", "X", "M")]
    triples += ["Re,%s" % b for b in ("G", "CL", "V", "X")] + ["r,%s" % b for b in ("CL", "C0", "V", "RB", "r,X")]
    for r in core.pmap(work, [(peer, ch, triples, 20000) for ch in core.chunks(sel, 40)]):
        absorb(r)
    ctx.extra["clear_error_sequences_per_file"] = len(triples)
    ctx.note("pairs done %.1fs" % (time.time() - t0))
    # tools
    tsel = opened + ([it for it in items if it not in opened][::4] if thorough else [it for it in items if it not in opened][::25])
    if not thorough:
        tsel = [it for it in tsel if it[1].startswith("payload")] + [it for it in tsel if not it[1].startswith("payload")][::2]
    for r in core.pmap(work_tools, [(peer, ch, TOOLS, 20000) for ch in core.chunks(tsel, 30)]):
        absorb(r)
    ctx.note("tools done %.1fs" % (time.time() - t0))
    net = opened[::8] if thorough else opened[::40]
    for r in core.pmap(work_tools, [(peer, ch, TOOLS_NET, 30000) for ch in core.chunks(net, 10)]):
        absorb(r)
    ctx.note("net done %.1fs" % (time.time() - t0))
    ctx.extra["files_that_open"] = len(opened)
    ctx.extra["pair_sequences_per_file"] = len(pairs)
    if skipped:
        ctx.cap("%d cases not executed after repeated hangs in their job" % skipped)
    ctx.sample({"file": items[5][0], "operations": "each of " + ",".join(SINGLES[:6]) + ",... on a fresh context"})
    ctx.sample({"file": "sealed header with isize = 2^63", "tool": "zck_delta_size f.zck peer.zck"})


def replay(case, quiet=True):
    peer = universe.ref_file("abc", Cfg(2, b"", 0, 3, 1), int(__import__("os").environ.get("VERIF_SEED", "0") or 0))
    b = bytes.fromhex(case["file"])
    if case["api"]:
        r = work((peer, [(case["label"], case["klass"], b)], case["seqs"], 100000))
    else:
        r = work_tools((peer, [(case["label"], case["klass"], b)], [(case["tool"], case["args"])], 100000))
    return {"violated": bool(r["viol"]), "detail": [v[1][:300] for v in r["viol"]]}
