"""C12 - I/O failures are reported, never turned into success.

Space (deviation-bounded exploration of environment answers through the link-time seam): scenarios = library write
(none; zstd + dictionary), library read + close, validate-all / validate-data / find-valid on a damaged file, copy-chunks,
the C04 update, and the tools zck (70 KB input = three read blocks, with and without -s), unzck, unzck --dict,
zck_read_header -c.  A fault-free run records N environment calls (read, write, lseek, ftruncate, mkstemp on the
scenario's descriptors); then EVERY single deviation: call k in 1..N x answer in {EIO, ENOSPC (writes), EINTR, short
count 1, n/2, n-1}; then (thorough) EVERY second deviation after every first one for scenarios with N <= 60 - the
second point is taken from the trace of the execution with the first fault, so every plan replays exactly.
Oracle (what really reached each descriptor is read back from the files): writer reports a successful close / tool
exits 0 => output bytes = fault-free output; reader reports success => content = the file's content; a validation
reports success only for a file that is valid; a chunk flagged valid => its bytes are on the target; update success
=> target = B.  Reporting an error is always acceptable.
"""
import core, zckref, universe
from universe import Cfg

D = universe.DELTA_DICT
EIO, EINTR, ENOSPC = 5, 4, 28


def alternatives(trace, after=-1):
    """deviations applicable to the points of a trace: list of 'k:KIND:arg'"""
    out = []
    if not trace or trace == "-":
        return out
    for rec in trace.split(","):
        k, op, role, req, resv, dev = rec.split(":")
        k, req, resv = int(k), int(req), int(resv)
        if k <= after or k < 0:
            continue
        if op == "r":
            out += ["%d:F:%d" % (k, EIO), "%d:F:%d" % (k, EINTR)]
            out += ["%d:S:%d" % (k, c) for c in sorted({1, resv // 2, resv - 1}) if 0 < c < resv]
        elif op == "w":
            out += ["%d:F:%d" % (k, EIO), "%d:F:%d" % (k, ENOSPC), "%d:F:%d" % (k, EINTR)]
            out += ["%d:S:%d" % (k, c) for c in sorted({1, req // 2, req - 1}) if 0 < c < req]
        elif op in "st":
            out.append("%d:F:%d" % (k, EIO))
        elif op == "m":
            out.append("%d:F:%d" % (k, ENOSPC))
    return out


class Scen:
    name = "?"
    cmd = "?"
    pairs_ok = True

    def job(self, plans):
        raise NotImplementedError

    def observe(self, c):
        """-> (record dict or None)"""
        raise NotImplementedError

    def judge(self, rec, base):
        raise NotImplementedError


class WriteScen(Scen):
    cmd = "writehist"

    def __init__(self, name, cfg, content, ops, manual=1, recover=0):
        self.name, self.cfg, self.content, self.ops, self.manual, self.recover = name, cfg, content, ops, manual, recover

    def job(self, plans):
        j = ["chunk 1", self.cfg.line(manual=self.manual), "content %s" % self.content.hex(), "read -", "trace 1", "recover %d" % self.recover]
        for p in plans:
            j += ["plan %s" % (p or "-"), "hist %s" % self.ops]
        return "\n".join(j) + "\n"

    def observe(self, c):
        return c.first("W")

    def judge(self, r, base):
        if self.recover and r["close"] == "1" and r["fail"] == "1":
            # the caller cleared the error after a failed call, went on and closed: whatever the library then calls a
            # successfully closed file has to be a file (which writes it holds is not judged)
            try:
                zckref.decode(core.unhex(r["file"]))
            except zckref.Invalid as e:
                return "successful-close-after-cleared-error-leaves-undecodable-file", "a call failed, the error was cleared, close succeeded: %s" % e
            except zckref.Unspecified:
                pass
            return None
        if r["close"] == "1" and r["fail"] == "0" and r["file"] != base["file"]:
            return "writer-reports-success-with-incomplete-output", "close succeeded but the output holds %d bytes, fault-free output %d bytes" % (
                len(core.unhex(r["file"])) if not r["file"].startswith("#") else -1, len(core.unhex(base["file"])) if not base["file"].startswith("#") else -1)
        return None

    def success(self, r):
        return r["close"] == "1"


class FaultScen(Scen):
    cmd = "fault"

    def __init__(self, name, scen, file, extra="", src=None, expect=None, valid=True, pb=None):
        self.name, self.scen, self.file, self.extra, self.src, self.expect, self.valid, self.pb = name, scen, file, extra, src, expect, valid, pb

    def job(self, plans):
        j = ["chunk 1", "file %s" % self.file.hex()] + (["src %s" % self.src.hex()] if self.src is not None else [])
        for p in plans:
            j.append("case scen=%s %s plan=%s trace=1" % (self.scen, self.extra, p or "-"))
        return "\n".join(j) + "\n"

    def observe(self, c):
        return c.first({"read": "R", "validate": "S", "copy": "P", "chunkreq": "Q"}[self.scen])

    def success(self, r):
        if self.scen == "read":
            return r["open"] == "1" and r["last"] == "0" and r["ferr"] == "0" and r["rclose"] == "1"
        if self.scen == "validate":
            return any(x.split(":")[1] == "1" for x in r["steps"].split(";")) if r["steps"] != "-" else False
        if self.scen == "chunkreq":
            return r["reqs"] != "-" and all(int(x.split(":")[1]) >= 0 for x in r["reqs"].split(";"))
        return r["ret"] == "1"

    def judge(self, r, base):
        if self.scen == "read":
            if self.success(r) and core.unhex(r["content"]) != self.expect:
                return "reader-reports-success-with-wrong-content", "%d bytes returned with success, the file holds %d" % (len(core.unhex(r["content"])), len(self.expect))
            return None
        if self.scen == "chunkreq":
            if r["reqs"] == "-":
                return None
            ext = zckref.extents(self.pb)
            ustart = [0]
            for c_ in self.pb.chunks[1:]:
                ustart.append(ustart[-1] + c_.ulen)
            for rq in r["reqs"].split(";"):
                op, ret, hx_ = rq.split(":")
                i, ret = int(op[1:]), int(ret)
                if ret < 0:
                    continue
                got = bytes.fromhex(hx_) if hx_ != "-" else b""
                if op[0] == "S":
                    want = self.file[ext[i][0]:ext[i][0] + ext[i][1]]
                else:
                    want = self.expect["dict"] if i == 0 else self.expect["content"][ustart[i - 1]:ustart[i - 1] + self.pb.chunks[i].ulen]
                # a count smaller than the chunk with exactly that many leading bytes is an honest short result (the caller sees
                # the count); anything else handed out with success is wrong
                if got != want[:len(got)] or len(got) > len(want) or ret != len(got):
                    return "chunk-request-reports-success-with-wrong-bytes", "request %s returned %d bytes that are not the chunk's %s" % (op, ret, "stored bytes" if op[0] == "S" else "data")
            return None
        if self.scen == "validate":
            if r["steps"] == "-":
                return None
            vm = zckref.valid_map(self.pb, self.file)
            for st in r["steps"].split(";"):
                op, ret, fl = st.split(":")
                if ret == "1" and not self.valid:
                    return "validation-reports-success-on-damaged-file", "step %s returned 1" % op
                for i, ch in enumerate(fl):
                    if ch == "+" and vm[i] != 1:
                        return "damaged-chunk-flagged-valid", "chunk %d after %s" % (i, op)
            return None
        # copy
        t = core.unhex(r["tfile"])
        ext = zckref.extents(self.pb)
        if len(r["flags"]) != len(ext):
            return None   # fatal error state: the API no longer reports markings, so nothing is claimed valid
        for i, ((off, ln), c) in enumerate(zip(ext, self.pb.chunks)):
            if r["flags"][i] == "+" and ln > 0 and zckref.digest(self.pb.ctype, t[off:off + ln]) != c.digest:
                return "chunk-flagged-valid-but-bytes-not-on-target", "chunk %d" % i
        return None


class UpdateScen(Scen):
    cmd = "update"

    def __init__(self, name, a, b, limit, init=b""):
        self.name, self.a, self.b, self.limit, self.init = name, a, b, limit, init

    def job(self, plans):
        j = ["chunk 1", "a %s" % (self.a.hex() if self.a is not None else "-"), "b %s" % self.b.hex()]
        for p in plans:
            j.append("case init=%s limit=%d plan=%s trace=1" % (self.init.hex() or "-", self.limit, p or "-"))
        return "\n".join(j) + "\n"

    def observe(self, c):
        return c.first("U")

    def success(self, r):
        return r["status"] == "0"

    def judge(self, r, base):
        if r["status"] == "0" and core.unhex(r["tfile"]) != self.b:
            return "update-reports-success-with-wrong-target", ""
        pb = zckref.parse(self.b)
        t = core.unhex(r["tfile"])
        if r.get("end", "-") != "-" and len(t) >= pb.header_len and t[:pb.header_len] == self.b[:pb.header_len]:
            for i, ((off, ln), c) in enumerate(zip(zckref.extents(pb), pb.chunks)):
                if i < len(r["end"]) and r["end"][i] == "+" and ln > 0 and zckref.digest(pb.ctype, t[off:off + ln]) != c.digest:
                    return "chunk-flagged-valid-but-bytes-not-on-target", "chunk %d" % i
        return None


class ToolScen(Scen):
    cmd = "tool"

    def __init__(self, name, tool, args, files, roles, outs, check_stdout=False, decodes_to=None):
        self.name, self.tool, self.args, self.files, self.roles, self.outs, self.check_stdout = name, tool, args, files, roles, outs, check_stdout
        self.decodes_to = decodes_to   # zck: the oracle is semantic - the output must decode to this content

    def job(self, plans):
        j = ["clear", "chunk 8"] + ["file %s %s" % (n, d.hex() or "-") for n, d in self.files]
        for p in plans:
            j.append("case tool=%s args=%s roles=%s out=%s plan=%s trace=1" % (
                self.tool, ",".join(a.encode().hex() for a in self.args), self.roles, ",".join(self.outs), p or "-"))
        return "\n".join(j) + "\n"

    def observe(self, c):
        return c.first("L")

    def success(self, r):
        return r["exit"] == "0"

    def judge(self, r, base):
        if r["exit"] != "0":
            return None
        for o in self.outs:
            if r.get("f." + o) != base.get("f." + o) and self.decodes_to is not None and "plan" in r:
                # a different but complete and correct file is fine: fetch the whole output and decode it with the reference
                cs = core.drv("tool", self.job([r["plan"]]), env_extra={"VF_BLOB_MAX": "100000000"})
                full = core.unhex(cs[0].first("L")["f." + o])
                try:
                    if zckref.decode(full)[0] == self.decodes_to:
                        continue
                    why = "decodes to other content"
                except (zckref.Invalid, zckref.Unspecified) as e:
                    why = "does not decode: %s" % e
                return "tool-exits-0-with-incomplete-output", "%s %s (%d bytes)" % (o, why, len(full))
            if r.get("f." + o) != base.get("f." + o):
                return "tool-exits-0-with-incomplete-output", "%s differs from the fault-free output (%s vs %s)" % (
                    o, (r.get("f." + o) or "")[:24], (base.get("f." + o) or "")[:24])
        if self.check_stdout and r["stdout"] != base["stdout"]:
            return "tool-exits-0-with-incomplete-output", "stdout differs from the fault-free run"
        return None


def run_plans(arg):
    sc, plans = arg
    cs = core.drv(sc.cmd, sc.job(plans), timeout=3000, env_extra={"VF_BLOB_MAX": "100000000"} if getattr(sc, "big", False) else None)
    out = []
    for c, p in zip(cs, plans):
        rec = sc.observe(c)
        if rec is not None:
            rec["plan"] = p
        out.append((p, rec, c.status(), c.done))
    return out


def explore(ctx, sc, bound):
    st = {"exec": 0, "points": 0, "changed": 0, "viol": [], "outcomes": set(), "N": 0}
    (p0, base, status, done), = run_plans((sc, [""]))
    if not done or base is None or (getattr(sc, 'valid', True) and not sc.success(base)):
        raise core.HarnessError("fault-free run of scenario %s does not succeed: %s %s" % (sc.name, base, status))
    st["exec"] += 1
    N = int(base["calls"])
    st["N"] = N
    level = [("", base)]
    for depth in range(1, bound + 1):
        plans = []
        for prefix, rec in level:
            last = int(prefix.split(",")[-1].split(":")[0]) if prefix else -1
            for alt in alternatives(rec.get("trace", "-"), last):
                plans.append((prefix + "," + alt) if prefix else alt)
        st["points"] += len(plans)
        nxt = []
        for part in core.pmap(run_plans, [(sc, ch) for ch in core.chunks(plans, 100)]):
            for plan, rec, status, done in part:
                st["exec"] += 1
                kind = "+".join(sorted({"%s%s" % (d.split(":")[1], {"5": "-EIO", "4": "-EINTR", "28": "-ENOSPC"}.get(d.split(":")[2], "")
                                                  if d.split(":")[1] == "F" else "") for d in plan.split(",")}))
                case = {"scenario": sc.name, "plan": plan}
                if not done or rec is None:
                    if status["timeout"]:
                        pred = "hang-under-fault"
                    else:
                        pred = "crash-under-fault"
                    st["viol"].append(({"check": "C12", "scenario": sc.name, "predicate": pred, "fault": kind}, "%s plan %s: %s" % (sc.name, plan, status), case))
                    continue
                if rec.get("mismatch") == "1":
                    raise core.HarnessError("plan %s did not replay in scenario %s" % (plan, sc.name))
                v = sc.judge(rec, base)
                ok = sc.success(rec)
                st["outcomes"].add((sc.name, ok))
                if not ok:
                    st["changed"] += 1
                if v:
                    st["viol"].append(({"check": "C12", "scenario": sc.name, "predicate": v[0], "fault": kind},
                                       "%s with environment plan %s: %s" % (sc.name, plan, v[1]), case))
                elif depth < bound:
                    nxt.append((plan, rec))
        level = nxt
    return st


SCENARIOS = {}


def scenarios(ctx):
    blk = core.blocks(ctx.seed)
    n0, zd, z0 = Cfg(0, b"", 0, 3, 1), Cfg(2, D, 0, 3, 1), Cfg(2, b"", 0, 3, 1)
    content = blk["a"] + blk["b"] + blk["c"]
    ops = "w23,e,w31,e,w17,e"
    S = [WriteScen("lib-write-none", n0, content, ops), WriteScen("lib-write-zstd-dict", zd, content, ops),
         WriteScen("lib-write-none-recover", n0, content, ops, recover=1), WriteScen("lib-write-zstd-dict-recover", zd, content, ops, recover=1),
         WriteScen("lib-write-auto-40k", n0, core.prng_bytes(40000, 3), "w10000,w30000", manual=0)]
    files = universe.lib_files([("abc", n0), ("abc", zd), ("aab", z0), ("ab", n0)], ctx.seed)
    fn, fzd, faab, fab = files
    S += [FaultScen("lib-read-none", "read", fn, "sched=7", expect=content), FaultScen("lib-read-zstd-dict", "read", fzd, "sched=32768", expect=content)]
    # validation of a damaged file: one bit of the second data chunk flipped
    pn = zckref.parse(fn)
    off, ln = zckref.extents(pn)[2]
    bad = bytearray(fn); bad[off + 3] ^= 0x20; bad = bytes(bad)
    S += [FaultScen("validate-damaged", "validate", bad, "ops=V,D,F", valid=False, pb=pn),
          FaultScen("validate-intact", "validate", fn, "ops=F,D", valid=True, pb=pn)]
    # chunk requests (data and stored bytes, every chunk, one context): the stored bytes are not covered by any digest check
    # on the way out, so a read that comes back short or fails must not end in a successful request with other bytes
    S += [FaultScen("chunk-requests-none", "chunkreq", fn, "ops=C1,S2,C3,S1", expect={"dict": b"", "content": content}, pb=pn),
          FaultScen("chunk-requests-zstd-dict", "chunkreq", fzd, "ops=S1,C2,S3,C0", expect={"dict": D, "content": content}, pb=zckref.parse(fzd))]
    paab = zckref.parse(faab)
    S += [FaultScen("copy-chunks", "copy", fn, "tmark=+000", src=fab, pb=pn)]
    S += [UpdateScen("update-ab-abc", fab, fn, -1), UpdateScen("update-none-aab-limit1", None, faab, 1)]
    # files with the uncompressed-source flag carry no whole-data digest: a reader that loses bytes to a short read has no second
    # line of defence there
    nU, zU = Cfg(0, b"", 1, 3, 1), Cfg(2, b"", 1, 1, 1)
    fnu, fzu = universe.lib_files([("abc", nU), ("abc", zU)], ctx.seed)
    S += [FaultScen("lib-read-none-uflag", "read", fnu, "sched=7", expect=content), FaultScen("lib-read-zstd-uflag", "read", fzu, "sched=32768", expect=content),
          FaultScen("validate-intact-uflag", "validate", fzu, "ops=V,F", valid=True, pb=zckref.parse(fzu))]
    # scale x environment: chunks that take two and three passes through the 32 KiB buffers, so that a fault can fall between
    # the passes of one chunk (reader, scan, chunk request, copy, the writer's final copy of its temporary file)
    bigcfg = Cfg(0, b"", 0, 3, 1)
    bigf, bpcs = universe.big_file(bigcfg, ctx.seed, sizes=(40000, 70000, 100))
    bcontent = b"".join(bpcs)
    pbig = zckref.parse(bigf)
    bigz, zpcs = universe.big_file(Cfg(2, b"", 0, 1, 1), ctx.seed, sizes=(70000, 100))
    bx = bytearray(bigf); bx[zckref.extents(pbig)[2][0] + 33000] ^= 1
    Sb = [FaultScen("lib-read-big", "read", bigf, "sched=100000", expect=bcontent), FaultScen("lib-read-big-zstd", "read", bigz, "sched=32768", expect=b"".join(zpcs)),
          FaultScen("validate-big-damaged", "validate", bytes(bx), "ops=V,F", valid=False, pb=pbig),
          FaultScen("chunk-requests-big", "chunkreq", bigf, "ops=C2,S1", expect={"dict": b"", "content": bcontent}, pb=pbig),
          FaultScen("copy-chunks-big", "copy", bigf, "tmark=+00+", src=bigf, pb=pbig),
          WriteScen("lib-write-big-chunks", bigcfg, bcontent[:110000], "w40000,e,w70000,e"),
          UpdateScen("update-big", None, bigf, -1)]
    for x in Sb:
        x.big = True
    S += Sb
    # three read blocks; a split string starts exactly at the second block so that a short first read (n-1) moves it to block offset 1
    big = (b"0123456789abcdef" * 2048)[:32768] + b"<text:p>" + (b"0123456789abcdef" * 437 + b"<text:p>") * 5 + b"0123456789abcdef<text:p>" * 3
    S += [ToolScen("zck-70k", "zck", ["in.bin"], [("in.bin", big)], "in.bin:i,in.bin.zck:o", ["in.bin.zck"], decodes_to=big),
          ToolScen("zck-70k-split", "zck", ["-s", "<text:", "in.bin"], [("in.bin", big)], "in.bin:i,in.bin.zck:o", ["in.bin.zck"], decodes_to=big),
          ToolScen("zck-dict", "zck", ["-D", "d.bin", "-m", "in.bin"], [("in.bin", content), ("d.bin", D)], "in.bin:i,in.bin.zck:o,d.bin:s", ["in.bin.zck"],
                   decodes_to=content),
          ToolScen("unzck", "unzck", ["f.zck"], [("f.zck", fzd)], "f.zck:i,f:o", ["f"]),
          ToolScen("unzck-dict", "unzck", ["--dict", "f.zck"], [("f.zck", fzd)], "f.zck:i,f.zdict:o", ["f.zdict"]),
          # the tools' own copy loops: unzck --header (raw copy of header + dictionary), and zck -s on an input so small that two
          # deviations are explored - a split string whose prefix arrives in three reads
          ToolScen("unzck-header", "unzck", ["--header", "f.zck"], [("f.zck", fzd)], "f.zck:i,f.zhr:o", ["f.zhr"]),
          ToolScen("zck-split-tiny", "zck", ["-s", "abcd", "in.bin"], [("in.bin", b"xxxxabcXtail")], "in.bin:i,in.bin.zck:o", ["in.bin.zck"], decodes_to=b"xxxxabcXtail"),
          ToolScen("unzck-stdout", "unzck", ["-c", "f.zck"], [("f.zck", fn)], "f.zck:i", [], check_stdout=True),
          ToolScen("zck_read_header", "zck_read_header", ["-c", "f.zck"], [("f.zck", fzd)], "f.zck:i", [], check_stdout=True)]
    return S


def run(ctx):
    thorough = ctx.tier == "thorough"
    S = scenarios(ctx)
    ctx.bounds = {"scenarios": [s.name for s in S], "answers": "EIO, ENOSPC (writes), EINTR, short count 1 / n/2 / n-1", "deviations": "thorough: 3 for scenarios with <= 15 environment calls, 2 up to 60 calls, else 1; quick: 2 up to 12 calls, else 1"}
    ctx.rule = ("execution = scenario under one environment plan; states = executions; transitions = environment calls answered; "
                "non-trivial = plans whose fault changed the reported outcome from success to failure")
    per = {}
    for sc in S:
        if ctx.expired():
            ctx.cap("deadline reached before scenario %s" % sc.name)
            break
        (p0, base, status, done), = run_plans((sc, [""]))
        n = int(base["calls"]) if base and "calls" in base else 0
        bound = (3 if n <= 15 else 2 if n <= 60 else 1) if thorough else (2 if n <= 12 else 1)
        st = explore(ctx, sc, bound)
        per[sc.name] = {"calls": st["N"], "executions": st["exec"], "bound": bound, "outcome_changed": st["changed"]}
        ctx.states += st["exec"]; ctx.evaluations += st["exec"]; ctx.transitions += st["exec"] * max(1, st["N"]); ctx.nontrivial += st["changed"]
        ctx.outcomes |= st["outcomes"]
        for sig, what, case in st["viol"]:
            ctx.violation(sig, what, case)
    ctx.extra["per_scenario"] = per
    ctx.sample({"scenario": "lib-write-none", "plan": "4:S:57", "meaning": "the 5th environment call (a write of the header) transfers only 57 bytes",
                "expect": "close fails, or the output equals the fault-free output"})
    ctx.sample({"scenario": "zck-70k", "plan": "2:F:5", "meaning": "the second read of the input fails with EIO", "expect": "exit status != 0"})


def replay(case, quiet=True):
    class T:
        seed = int(__import__("os").environ.get("VERIF_SEED", "0") or 0); tier = "quick"
    for sc in scenarios(T):
        if sc.name == case["scenario"]:
            (p0, base, s0, d0), = run_plans((sc, [""]))
            (p, rec, status, done), = run_plans((sc, [case["plan"]]))
            if not done or rec is None:
                return {"violated": True, "detail": str(status)}
            v = sc.judge(rec, base)
            return {"violated": bool(v), "detail": v}
    return {"violated": False, "detail": "unknown scenario"}
