"""C01 - round trip: anything written reads back byte-identical and fully valid.

Space.  (A) ALL write histories of tiny contents: contents of length L <= 4 (thorough 6); histories = all sequences over
{write 1, write 2, write 3 bytes, end-chunk} that consume the content, end-chunk allowed anywhere (first, doubled,
last), depth <= L+3; x configurations of the tiny universe x chunking {manual, automatic} x (min,max) in {unset, (1,1),
(1,10), (5,10), (10,1000)} x read schedules.  (B) medium contents (incompressible, text, runs; 0..300 000 bytes) x write
segmentations x compression {none, zstd at levels} x dictionary x chunking {automatic default, automatic with max in
{100, 4096, 8191, 8192, 9000, 131072}, manual with end-chunk every m writes} x digests x flag.  (C) the zck and unzck
tools in-process: options {-m} x {-s S} x {-D} x {-u} x {--compression-format} x {-h} x inputs built so that the split
string starts at EVERY offset around each 32 KiB read block edge, at offsets 0, 1, 2, back to back, overlapping itself,
and inputs ending in every proper prefix of S; x descriptor environments {all open, fd 0 closed, fds 0-1 closed, fds
0-2 closed} (also for zck_init_write at library level).
Oracle: if every write/end-chunk and zck_close reported success then the file opens, zck_validate_checksums()==1, for
every read schedule the concatenation of zck_read results equals D and zck_close succeeds, and the reference decoder
independently decodes the file to D with header, chunk and data checksums matching.  Every call returns within the
per-execution alarm (re-run with ten times the limit before a hang is reported).  Tools: zck exit 0 and unzck exit 0
=> output file = input file.
"""
import itertools, os
import core, zckref, universe
from universe import Cfg

D = universe.DELTA_DICT
BIG = {"VF_BLOB_MAX": "100000000"}


# ------------------------------------------------------------------ (A) tiny histories
def histories(L, maxdepth):
    out = []

    def rec(rem, ops):
        if len(ops) > maxdepth:
            return
        if rem == 0:
            out.append(",".join(ops) if ops else "-")
        for w in (1, 2, 3):
            if w <= rem:
                rec(rem - w, ops + ["w%d" % w])
        if len(ops) < maxdepth and (not ops or ops[-2:] != ["e", "e"]):
            rec(rem, ops + ["e"])
    rec(L, [])
    return sorted(set(out), key=lambda h: (len(h), h))


MINMAX = [(0, 0), (1, 1), (1, 10), (5, 10), (10, 1000)]


def judge_write(content, w, v, reads, cfgname, hist):
    """returns (predicate, text) or None; w/v/reads are driver records"""
    if w.get("init") != "1" or "refused" in w:
        return None           # the library refused the configuration: no claim
    if w["fail"] == "1" or w["close"] != "1":
        return None           # a failed call makes no claim
    if int(w.get("badclose", "0")) > 0:
        # "regardless of which file descriptors are free": whatever the caller opens in the meantime gets that number
        return "writer-closes-a-descriptor-it-does-not-own", "%s close() call(s) on a descriptor that is not open during zck_close/zck_free" % w["badclose"]
    if w["file"].startswith("#"):
        return None
    f = core.unhex(w["file"])
    try:
        dec, p = zckref.decode(f)
    except zckref.Invalid as e:
        return "reference-decoder-rejects-written-file", str(e)
    except zckref.Unspecified as e:
        return None
    if dec != content:
        return "written-file-decodes-to-other-content", "reference decodes %d bytes, %d were written" % (len(dec), len(content))
    if v is None or v["open"] != "1":
        return "written-file-does-not-open", ""
    if v["validate"] != "1":
        return "written-file-does-not-validate", "zck_validate_checksums returned %s" % v["validate"]
    for r in reads:
        if r["open"] != "1" or r["last"] != "0" or r["ferr"] != "0" or r["rclose"] != "1":
            return "read-back-fails", "schedule %s: last=%s close=%s" % (r["sched"], r["last"], r["rclose"])
        if core.unhex(r["content"]) != content:
            return "read-back-differs", "schedule %s: %d bytes read, %d written" % (r["sched"], len(core.unhex(r["content"])), len(content))
    return None


def work_tiny(arg, timeout_ms=3000):
    cfg, manual, mn, mx, contents, hists_by_len, scheds, closefds = arg[:8]
    refuse = arg[8] if len(arg) > 8 else 0
    job = [cfg.line(manual=manual, mn=mn, mx=mx, refuse=refuse), "read %s" % scheds, "closemask %d" % closefds, "timeout %d" % timeout_ms]
    meta = []
    for content in contents:
        job.append("content %s" % (content.hex() or "-"))
        for h in hists_by_len[len(content)]:
            job.append("hist %s" % h)
            meta.append((content, h))
    cs = core.drv("writehist", "\n".join(job) + "\n", timeout=3000)
    res = {"n": 0, "tr": 0, "multi": 0, "viol": [], "outcomes": set(), "skipped": 0}
    for c, (content, h) in zip(cs, meta):
        if c.skipped:
            res["skipped"] += 1
            continue
        res["n"] += 1
        res["tr"] += h.count(",") + 2
        w = c.first("W")
        case = {"part": "A", "cfg": [cfg.comp, cfg.dict.hex(), cfg.uncomp, cfg.chash, cfg.fhash], "manual": manual, "min": mn, "max": mx,
                "content": content.hex(), "hist": h, "scheds": scheds, "closefds": closefds, "refuse": refuse}
        klass = {"check": "C01", "part": "A", "chunking": "manual" if manual else "auto", "minmax": "%d,%d" % (mn, mx), "closefds": closefds}
        if refuse:
            klass["after_refused_option_calls"] = True
            if w is not None and "accepted" in w:
                continue       # one of the calls was accepted: it is part of the configuration then, no claim
        what0 = "%s %s min=%d max=%d closefds=%d content=%d bytes history=%s" % (cfg.name(), "manual" if manual else "auto", mn, mx, closefds, len(content), h)
        if not c.done or w is None:
            st = c.status()
            res["viol"].append((dict(klass, predicate="write-path-does-not-terminate" if st["timeout"] else "crash"), "%s: %s" % (what0, st), case))
            continue
        v = judge_write(content, w, c.first("V"), c.all("R"), cfg.name(), h)
        try:
            if w["close"] == "1" and len(zckref.parse(core.unhex(w["file"])).chunks) > 2:
                res["multi"] += 1
        except Exception:
            pass
        res["outcomes"].add((w.get("close"), w.get("fail"), "refused" in w))
        if v:
            res["viol"].append((dict(klass, predicate=v[0]), "%s: %s" % (what0, v[1]), case))
    return res


# ------------------------------------------------------------------ (B) medium contents
_gc = {}


def gen(kind, n, seed):
    if kind == "rand":
        return core.prng_bytes(n, seed)
    if kind == "text":
        words = [b"lorem", b"ipsum", b"dolor", b"sit", b"amet", b"consectetur", b"adipiscing", b"elit", b"sed", b"do"]
        out = bytearray()
        r = core.prng_bytes(n // 3 + 8, seed + 1)
        i = 0
        while len(out) < n:
            out += words[r[i % len(r)] % len(words)] + b" "
            i += 1
        return bytes(out[:n])
    if kind == "zeros":
        return bytes(n)
    if kind == "edger":
        if ("edger", seed) not in _gc:
            _gc[("edger", seed)] = core.prng_bytes(2200000, seed + 5)
        return _gc[("edger", seed)][:n]
    if kind == "record":
        rec = core.prng_bytes(1024, seed + 2)
        return (rec * (n // 1024 + 1))[:n]
    if kind == "dictlike":
        for dct in (universe.DELTA_DICT, universe.DELTA_DICT * 3):
            c = dictlike(dct)
            if len(c) == n:
                return c
    raise ValueError(kind)


def dictlike(dct):
    return (dct[7:] + dct[:31] + b"|" + dct) * 12


def segmentation(n, kind):
    """write sizes as an op string"""
    if kind == "whole":
        return "W"
    k = int(kind)
    ops = ["w%d" % k] * (n // k)
    return ",".join(ops + ["W"]) if ops else "W"


def work_medium(arg):
    items = arg   # (label, cfgline, content, ops, scheds)
    job = ["timeout 60000", "chunk 2"]
    for label, cfgline, content, ops, scheds in items:
        job += [cfgline, "content %s" % (content.hex() or "-"), "read %s" % scheds, "hist %s" % ops]
    cs = core.drv("writehist", "\n".join(job) + "\n", timeout=3000, env_extra=BIG)
    res = {"n": 0, "tr": 0, "multi": 0, "viol": [], "outcomes": set(), "skipped": 0}
    for c, (label, cfgline, content, ops, scheds) in zip(cs, items):
        if c.skipped:
            res["skipped"] += 1
            continue
        res["n"] += 1
        res["tr"] += ops.count(",") + 2
        w = c.first("W")
        case = {"part": "B", "label": label, "cfgline": cfgline, "content_gen": label.split(" ")[0], "ops": ops if len(ops) < 2000 else None, "scheds": scheds}
        klass = {"check": "C01", "part": "B", "config": label.split(" ", 1)[1].split(" seg=")[0]}
        if not c.done or w is None:
            st = c.status()
            res["viol"].append((dict(klass, predicate="write-path-does-not-terminate" if st["timeout"] else "crash"), "%s: %s" % (label, st), case))
            continue
        v = judge_write(content, w, c.first("V"), c.all("R"), "", ops)
        try:
            if w["close"] == "1" and len(zckref.parse(core.unhex(w["file"])).chunks) > 2:
                res["multi"] += 1
        except Exception:
            pass
        res["outcomes"].add((w.get("close"), w.get("fail"), "refused" in w))
        if v:
            res["viol"].append((dict(klass, predicate=v[0]), "%s: %s" % (label, v[1]), case))
    return res


def medium_items(ctx):
    thorough = ctx.tier == "thorough"
    items = []
    sizes = [0, 1, 100, 10000, 40000] + ([300000] if thorough else [])
    kinds = ["rand", "text", "zeros", "record"] if thorough else ["rand", "text", "zeros"]
    zmax = zckref.zstd().ZSTD_maxCLevel()
    for kind in kinds:
        for n in sizes:
            content = gen(kind, n, ctx.seed)
            segs = ["whole", "1", "7", "4096", "8191", "8193", "32768", "32769"] if thorough else ["whole", "7", "8193", "32769"]
            if n > 50000:
                segs = [s for s in segs if s not in ("1", "7")]
            if n > 10000:
                segs = [s for s in segs if s != "1"]
            cfgs = []
            levels = (list(range(0, zmax + 1)) if n <= 10000 and thorough else [1, 9, 19]) if n <= 40000 or thorough else [3]
            for lvl in levels:
                cfgs.append(("zstd-l%d auto" % lvl, "cfg comp=2 level=%d manual=0" % lvl))
            cfgs.append(("none auto", "cfg comp=0 manual=0"))
            cfgs.append(("zstd+dict auto", "cfg comp=2 dict=%s manual=0" % D.hex()))
            cfgs.append(("zstd+flag sha256 auto", "cfg comp=2 uncomp=1 chash=1 fhash=1 manual=0"))
            cfgs.append(("none sha512/sha1 auto", "cfg comp=0 chash=2 fhash=0 manual=0"))
            for mx in ([100, 4096, 8191, 8192, 9000, 131072] if thorough else [100, 8192, 9000]):
                cfgs.append(("none auto max=%d" % mx, "cfg comp=0 manual=0 max=%d" % mx))
            cfgs.append(("zstd auto min=9000 max=9000", "cfg comp=2 manual=0 max=9000 min=9000"))
            cfgs.append(("none auto min=20000 max=200000", "cfg comp=0 manual=0 max=200000 min=20000"))
            for cname, cline in cfgs:
                for s in (segs if cname in ("none auto", "zstd-l9 auto", "none auto max=9000", "none auto max=100") else segs[:2]):
                    if s == "1" and n > 1000:
                        continue
                    # read buffers larger than the library's 32 KiB blocks once the content is larger than that
                    items.append(("%s/%d %s seg=%s" % (kind, n, cname, s), cline, content, segmentation(n, s),
                                  "32768;7" if n <= 10000 else ("32768;32769;100000;1048576" if s in ("whole", "7") else "32768")))
            # manual chunking with end-chunk every m writes
            for m, k in ((1, 4096), (3, 1000), (2, 32769)):
                if n >= k:
                    ops = []
                    nw = n // k
                    for i in range(nw):
                        ops.append("w%d" % k)
                        if (i + 1) % m == 0:
                            ops.append("e")
                    ops.append("W")
                    for cname, cline in (("none manual", "cfg comp=0 manual=1"), ("zstd manual", "cfg comp=2 manual=1"),
                                         ("none manual max=5000", "cfg comp=0 manual=1 max=5000")):
                        items.append(("%s/%d %s seg=%dx%d" % (kind, n, cname, k, m), cline, content, ",".join(ops), "32768"))
    # contents made of the dictionary's own bytes (raw-content dictionary, no dictionary id in the frames): the compressed chunks
    # are back-references into the dictionary, so a reader that does not load it - or loads another one - cannot decode them
    for dname, dct in (("delta", universe.DELTA_DICT), ("delta-x3", universe.DELTA_DICT * 3)):
        content = dictlike(dct)
        for lvl in (1, 19):
            items.append(("dictlike/%d zstd+dict(%s) level=%d seg=3-chunks" % (len(content), dname, lvl),
                          "cfg comp=2 manual=1 level=%d dict=%s" % (lvl, dct.hex()), content, "w%d,e,w%d,e,W" % (len(content) // 3, len(content) // 3), "32768;7"))
    # a configured minimum above the automatic maximum (4 x average = 131072): needs a content longer than that
    for kind in ("zeros", "rand"):
        content = gen(kind, 150000 if not thorough else 300000, ctx.seed)
        for cname, cline in (("none auto min=140000 max=300000", "cfg comp=0 manual=0 max=300000 min=140000"),
                             ("none auto min=131073 max=131073", "cfg comp=0 manual=0 max=131073 min=131073"),
                             ("zstd auto min=200000 max=10485760", "cfg comp=2 manual=0 max=10485760 min=200000")):
            for sg in ("whole", "32768"):
                items.append(("%s/%d %s seg=%s" % (kind, len(content), cname, sg), cline, content, segmentation(len(content), sg), "32768"))
    # a minimum set on its own (no maximum given) above the default maximum of 10 MiB, and a chunk longer than that: either the
    # option is refused or the writer copes
    big = gen("zeros", 11000000, ctx.seed)
    for cname, cline in (("none manual min=10485761 alone", "cfg comp=0 manual=1 min=10485761"), ("none auto min=10485761 alone", "cfg comp=0 manual=0 min=10485761")):
        items.append(("zeros/%d %s seg=whole" % (len(big), cname), cline, big, segmentation(len(big), "whole"), "32768"))
    # value-dependent shapes: every header integer (chunk size, stored size, index size, header size, chunk count) on and around
    # the 7-bit boundaries of the variable-length integer encoding
    src = gen("edger", 2200000, ctx.seed)
    zsrc = bytes(2200000)
    edge = [127, 128, 129, 255, 256, 16383, 16384, 16385, 16447, 16511, 16512] + ([2097151, 2097152, 2097153, 2113535, 2113536] if thorough else [2097152])
    for sz in edge:
        for cname, cline, data in (("none manual", "cfg comp=0 manual=1", src), ("zstd manual", "cfg comp=2 manual=1", src), ("zstd manual zeros", "cfg comp=2 manual=1", zsrc)):
            if sz > 100000 and cname != "none manual" and not thorough:
                continue
            content = data[:sz + 5]
            items.append(("%s/%d %s seg=chunk-of-%d" % ("zeros" if data is zsrc else "edger", len(content), cname, sz), cline, content, "w%d,e,W" % sz, "32768"))
        items.append(("edger/%d none auto max=%d seg=whole" % (sz * 2 + 3, sz), "cfg comp=0 manual=0 max=%d%s" % (sz, " min=%d" % sz if sz < 8192 else ""), src[:sz * 2 + 3], "W", "32768"))
    for nch in [5, 6, 7, 8, 9] + list(range(903, 921)) + ([127, 128, 129, 16383, 16384] if thorough else [127, 128]):
        for cname, cline in (("none manual", "cfg comp=0 manual=1"), ("none manual sha256", "cfg comp=0 manual=1 chash=1"), ("zstd manual sha1", "cfg comp=2 manual=1 chash=0")):
            if nch > 1000 and cname != "none manual":
                continue
            items.append(("edger/%d %s seg=%d-one-byte-chunks" % (nch, cname, nch), cline, src[:nch], ",".join(["w1,e"] * nch), "32768"))
    # sizes beyond 32 bits: the options take a ssize_t.  Either the value is refused or it means what it says
    content = gen("rand", 20000, ctx.seed)
    for cname, cline in (("none manual min=500 max=1000 then max=2^32+100", "cfg comp=0 manual=1 max=1000 min=500 max2=4294967396"),
                         ("none auto min=500 max=1000 then max=2^32+100", "cfg comp=0 manual=0 max=1000 min=500 max2=4294967396"),
                         ("none manual max=2^32", "cfg comp=0 manual=1 max=4294967296"),
                         ("zstd manual max=2^31", "cfg comp=2 manual=1 max=2147483648"),
                         ("none auto max=2^32+9000", "cfg comp=0 manual=0 max=4294976296"),
                         ("none manual max=2^33 min=2^32+1", "cfg comp=0 manual=1 max=8589934592 min=4294967297"),
                         ("zstd auto max=2^63-1", "cfg comp=2 manual=0 max=9223372036854775807")):
        for sg in ("whole", "4096"):
            items.append(("rand/%d %s seg=%s" % (len(content), cname, sg), cline, content, segmentation(len(content), sg), "32768"))
    return items


# ------------------------------------------------------------------ (C) tools
def tool_inputs(S, thorough):
    """inputs that put the split string at every offset around the read-block edges and at the other forcing places"""
    s = S.encode()
    n = len(s)
    fill = b"0123456789abcdefghijklmnopqrstuvwxyz"
    filler = lambda k, salt=0: bytes(fill[(i + salt) % len(fill)] for i in range(k))
    out = []
    out.append(("empty", b""))
    out.append(("only-split", s))
    out.append(("split-twice", s + s))
    for off in (0, 1, 2, 3):
        out.append(("at-%d" % off, filler(off) + s + filler(40, 5)))
    out.append(("back-to-back", filler(10) + s + s + s + filler(10)))
    if n > 1:
        out.append(("overlapping", filler(5) + s[:-1] + s + filler(5)))
        out.append(("self-prefix", filler(5) + s[:1] + s + filler(5)))
    for k in range(1, n):
        out.append(("ends-in-prefix-%d" % k, filler(30) + s[:k]))
        out.append(("ends-in-split+prefix-%d" % k, filler(30) + s + filler(3) + s[:k]))
    blocks = (1, 2) if thorough else (1,)
    for b in blocks:
        edge = 32768 * b
        for off in range(edge - n - 2, edge + 3):
            pre = filler(off, b)
            out.append(("edge%d-at-%d" % (b, off), pre + s + filler(50, 7)))
            if thorough or off % 2 == 0:
                for k in range(1, n):
                    # a failed partial match straddling the edge
                    out.append(("edge%d-partial%d-at-%d" % (b, k, off), pre + s[:k] + b"#" + filler(50, 9)))
        # input that ends exactly in a prefix at a block edge
        for k in range(1, n):
            out.append(("edge%d-ends-in-prefix-%d" % (b, k), filler(edge - k, 3) + s[:k]))
            out.append(("edge%d-ends-in-prefix-%d-straddling" % (b, k), filler(edge - max(1, k // 2), 3) + s[:k]))
    return out


def hx(s):
    return s.encode().hex() if s else "-"


def zck_out(zargs):
    return zargs[zargs.index("-o") + 1] if "-o" in zargs else "in.bin.zck"


def work_tools(arg):
    items = arg   # (label, zck args, unzck args, input bytes, extra files, closefds)
    job = ["chunk 8", "timeout 30000"]
    for label, zargs, uargs, data, extra, closefds in items:
        job.append("clear")
        job.append("file in.bin %s" % (data.hex() or "-"))
        for n, d in extra:
            job.append("file %s %s" % (n, d.hex() or "-"))
        job.append("case tool=zck args=%s out=%s closemask=%d" % (",".join(hx(a) for a in zargs + ["in.bin"]), zck_out(zargs), closefds))
    cs = core.drv("tool", "\n".join(job) + "\n", timeout=3000, env_extra=BIG)
    res = {"n": 0, "tr": 0, "multi": 0, "viol": [], "outcomes": set(), "skipped": 0}
    second = []
    for c, it in zip(cs, items):
        label, zargs, uargs, data, extra, closefds = it
        if c.skipped:
            res["skipped"] += 1
            continue
        res["n"] += 1
        res["tr"] += 1
        l = c.first("L")
        case = {"part": "C", "label": label, "zargs": zargs, "uargs": uargs, "data": data.hex() if len(data) < 200000 else None, "extra": [(n, d.hex()) for n, d in extra],
                "closefds": closefds}
        klass = {"check": "C01", "part": "C", "split": "-s" in zargs, "closefds": closefds,
                 "input": label.split(" ")[-1].split("-at-")[0].rstrip("0123456789-")}
        if not c.done or l is None:
            st = c.status()
            res["viol"].append((dict(klass, predicate="tool-does-not-terminate" if st["timeout"] else "tool-crash"), "zck %s on %s: %s" % (" ".join(zargs), label, st), case))
            continue
        res["outcomes"].add(("zck", l["exit"]))
        if l["exit"] != "0":
            continue      # an error exit makes no claim
        f = l.get("f." + zck_out(zargs), "ABSENT")
        if f == "ABSENT":
            res["viol"].append((dict(klass, predicate="zck-exit-0-without-output"), "zck %s on %s" % (" ".join(zargs), label), case))
            continue
        fb = core.unhex(f)
        try:
            dec, p = zckref.decode(fb)
            if len(p.chunks) > 2:
                res["multi"] += 1
            if dec != data:
                pos = next((i for i in range(min(len(dec), len(data))) if dec[i] != data[i]), min(len(dec), len(data)))
                res["viol"].append((dict(klass, predicate="zck-output-decodes-to-other-content"),
                                    "zck %s on %s: output decodes to %d bytes, input has %d; first difference at offset %d" % (" ".join(zargs), label, len(dec), len(data), pos), case))
                continue
        except zckref.Invalid as e:
            res["viol"].append((dict(klass, predicate="zck-output-rejected-by-reference-decoder"), "zck %s on %s: %s" % (" ".join(zargs), label, e), case))
            continue
        except zckref.Unspecified:
            pass
        second.append((it, fb, case, klass))
    if second:
        job = ["chunk 8", "timeout 30000"]
        for (label, zargs, uargs, data, extra, closefds), fb, case, klass in second:
            job.append("clear")
            job.append("file in.bin.zck %s" % fb.hex())
            job.append("case tool=unzck args=%s out=in.bin closemask=%d" % (",".join(hx(a) for a in uargs + ["in.bin.zck"]), closefds))
        cs = core.drv("tool", "\n".join(job) + "\n", timeout=3000, env_extra=BIG)
        for c, ((label, zargs, uargs, data, extra, closefds), fb, case, klass) in zip(cs, second):
            res["tr"] += 1
            l = c.first("L")
            if not c.done or l is None:
                st = c.status()
                res["viol"].append((dict(klass, predicate="tool-does-not-terminate" if st["timeout"] else "tool-crash"), "unzck after zck %s on %s: %s" % (" ".join(zargs), label, st), case))
                continue
            res["outcomes"].add(("unzck", l["exit"]))
            if l["exit"] != "0":
                res["viol"].append((dict(klass, predicate="unzck-rejects-zck-output"), "zck %s on %s: unzck exits %s on the produced file" % (" ".join(zargs), label, l["exit"]), case))
                continue
            o = l.get("stdout", "-") if "-c" in uargs else l.get("f.in.bin", "ABSENT")
            if o == "ABSENT" or core.unhex(o) != data:
                res["viol"].append((dict(klass, predicate="tools-round-trip-differs"), "zck %s | unzck on %s: output %s" % (
                    " ".join(zargs), label, "absent" if o == "ABSENT" else "%d bytes vs %d" % (len(core.unhex(o)), len(data))), case))
    return res


def tool_items(ctx):
    thorough = ctx.tier == "thorough"
    items = []
    splits = ["<text:", "ab"] + (["a", "aab", "0123456789" * 10] if thorough else [])
    for S in splits:
        for name, data in tool_inputs(S, thorough):
            for opts in ([["-s", S]] if not thorough else [["-s", S], ["-s", S, "-m"]]):
                items.append(("-s %r %s" % (S, name), opts, [], data, [], 0))
    # option combinations on a two-block input and on a small one
    two = gen("text", 70000, ctx.seed)
    small = b"hello <text:world> <text:again>\n" * 3
    base_opts = [[], ["-m"], ["-u"], ["--compression-format", "none"], ["--compression-format", "zstd"], ["-h", "sha256"], ["-h", "sha512"],
                 ["-h", "sha512_128"], ["-D", "d.bin"], ["-D", "d.bin", "-m", "-s", "<text:"], ["-u", "-h", "sha512", "-s", "<text:"],
                 ["--compression-format", "none", "-m"], ["-u", "--compression-format", "none", "-D", "d.bin"]]
    for data, dn in ((two, "text70k"), (small, "small"), (b"", "empty")):
        for o in base_opts:
            items.append(("opts %s" % dn, o, [], data, [("d.bin", D)], 0))
    # output name, verbosity (the library then logs to descriptor 2), unzck to standard output
    for data, dn in ((two, "text70k"), (small, "small"), (b"", "empty")):
        for o, u in (([], ["-c"]), (["-o", "other.zck"], []), (["-v"], ["-v"]), (["-vv"], ["-vv"]), (["-vvvv"], ["-vvvv"]), (["-v", "-o", "x.zck", "-D", "d.bin"], ["-c", "-v"]),
                     (["-vvv", "-s", "<text:", "--compression-format", "none"], ["-vvv"]), (["-vvv", "-u", "-m"], ["-vvv", "-c"])):
            items.append(("opts %s" % dn, o, u, data, [("d.bin", D)], 0))
    # descriptor environments
    for closefds in (1, 2, 3, 4, 5, 6, 7):     # bit i set: descriptor i is closed when the tool starts
        for o, u in (([], []), (["-D", "d.bin"], []), (["-s", "<text:"], []), (["--compression-format", "none"], []), (["-o", "y.zck"], []),
                     (["-v"], ["-v"]), (["-vvv"], ["-vvv"]), (["-vvv", "-D", "d.bin"], ["-vv"]), (["-vv", "--compression-format", "none", "-o", "z.zck"], ["-vvvv"])):
            for data, dn in ((small, "small"), (two, "text70k")) if (thorough or "-v" in " ".join(o)[:2] or not o) else ((small, "small"),):
                items.append(("closefds%d %s" % (closefds, dn), o, u, data, [("d.bin", D)], closefds))
    return items


# ------------------------------------------------------------------ run
def run(ctx):
    thorough = ctx.tier == "thorough"
    Lmax = 4 if not thorough else 6
    blk = core.blocks(ctx.seed)
    contents = [blk["c"][:L] for L in range(0, Lmax + 1)]
    hbl = {L: histories(L, L + 3) for L in range(0, Lmax + 1)}
    cfgs = universe.small_cfgs() if not thorough else universe.all_cfgs(chashes=(1, 3), fhashes=(0, 1)) + [Cfg(2, b"", 0, 0, 1), Cfg(0, b"", 0, 2, 1)]
    jobs = []
    for cfg in cfgs:
        for manual in (1, 0):
            for mn, mx in MINMAX:
                jobs.append((cfg, manual, mn, mx, contents, hbl, "1;3;32768", 0))
    # option calls the library refuses (each followed by zck_clear_error) in front of the histories: they are not configuration
    for cfg in (cfgs[0], cfgs[2], cfgs[4]):
        for manual in (1, 0):
            for mn, mx in MINMAX[:3]:
                jobs.append((cfg, manual, mn, mx, contents, hbl, "1;32768", 0, 1))
    # zck_init_write with closed descriptors
    for closefds in (1, 2, 3, 4, 5, 6, 7):     # bit mask of closed descriptors
        for cfg in (cfgs[0], cfgs[2]):
            jobs.append((cfg, 1, 0, 0, contents[-2:], hbl, "7", closefds))
    nh = sum(len(hbl[len(c)]) for c in contents)
    ctx.bounds = {"A": {"content_lengths": "0..%d" % Lmax, "histories_per_config": nh, "configurations": len(cfgs), "minmax": MINMAX, "chunking": "manual, automatic",
                        "closed_descriptor_environments": "every subset of {0,1,2} closed"}}
    ctx.rule = ("case = (configuration, content, write history or tool invocation); non-trivial = produced file with >= 2 data chunks")
    tot = {"n": 0, "tr": 0, "multi": 0}

    def absorb(r):
        ctx.states += r["n"]; ctx.evaluations += r["n"]; ctx.transitions += r["tr"]; ctx.nontrivial += r["multi"]
        ctx.outcomes |= r["outcomes"]
        for sig, what, case in r["viol"]:
            ctx.violation(sig, what, case)
        if r.get("skipped"):
            tot["n"] += r["skipped"]

    for r in core.pmap(work_tiny, jobs):
        absorb(r)
    mi = medium_items(ctx)
    ctx.bounds["B"] = {"cases": len(mi)}
    mi.sort(key=lambda it: -len(it[2]) * (3 if "zstd" in it[0] else 1))
    nj = 64
    for r in core.pmap(work_medium, [mi[k::nj] for k in range(nj) if mi[k::nj]]):
        absorb(r)
    ti = tool_items(ctx)
    ctx.bounds["C"] = {"tool_cases": len(ti)}
    ti.sort(key=lambda it: -len(it[3]))
    for r in core.pmap(work_tools, [ti[k::48] for k in range(48) if ti[k::48]]):
        absorb(r)
    if tot["n"]:
        ctx.cap("%d cases were not executed because their job had already hung four times" % tot["n"])
    ctx.sample({"part": "A", "config": "c2D.ch3.fh1 auto min=5 max=10", "content": contents[-1].hex(), "history": "e,w1,e,e,w3", "read": "1;3;32768"})
    ctx.sample({"part": "C", "tool": "zck -s '<text:' in.bin && unzck in.bin.zck", "input": "split string starting at offset 32767 of the file"})


def replay(case, quiet=True):
    if case["part"] == "A":
        c = case["cfg"]
        cfg = Cfg(c[0], bytes.fromhex(c[1]), c[2], c[3], c[4])
        content = bytes.fromhex(case["content"])
        # a timed-out case is confirmed with ten times the limit before it is called a hang
        r = work_tiny((cfg, case["manual"], case["min"], case["max"], [content], {len(content): [case["hist"]]}, case["scheds"], case["closefds"], case.get("refuse", 0)), 30000)
    elif case["part"] == "B":
        kind, n = case["content_gen"].split("/")
        content = gen(kind, int(n), int(os.environ.get("VERIF_SEED", "0") or 0))
        if case["ops"] is None:
            return {"violated": True, "detail": "operation list too long for the replay file; re-run the check"}
        r = work_medium([(case["label"], case["cfgline"], content, case["ops"], case["scheds"])])
    else:
        if case["data"] is None:
            return {"violated": True, "detail": "input too large for the replay file"}
        r = work_tools([(case["label"], case["zargs"], case["uargs"], bytes.fromhex(case["data"]), [(n, bytes.fromhex(d)) for n, d in case["extra"]], case["closefds"])])
    return {"violated": bool(r["viol"]), "detail": [v[1] for v in r["viol"]]}
