"""C14 - random access returns each chunk's exact data regardless of request history.

Space: files = words of length 3-4 x {none, zstd} x {no dictionary, dictionary}.  Alphabet: data(i) and stored(i) for
every chunk i including the dictionary entry and the last chunk.  All request sequences up to length 3 (thorough 4),
each replayed on a fresh context (state = request history).
Oracle: data(i) returns exactly chunk i's slice of the content with its declared size, stored(i) exactly the stored
bytes, irrespective of the prefix; equivalently the result of a request equals that of the same request on a fresh
context.
"""
PROMOTE = True   # quick runs the former thorough bound (seconds); thorough goes deeper where a deeper bound is defined (ctx.deep)
import core, zckref, universe
from universe import Cfg


def bases(ctx):
    thorough = ctx.tier == "thorough"
    words = ["abc", "aab"] if not thorough else ["abc", "aab", "abca", "dddd"]
    cfgs = [Cfg(0, b"", 0, 3, 1), Cfg(2, b"", 0, 3, 1), Cfg(0, universe.DELTA_DICT, 0, 3, 1), Cfg(2, universe.DELTA_DICT, 0, 3, 1)]
    specs = [(w, c) for w in words for c in cfgs]
    # every chunk / overall digest type once (the hash backends keep one code path - and one kind of context - per type; what a
    # scan or an earlier request leaves behind in it is type specific)
    specs += [("abc", Cfg(2, b"", 0, 0, 0)), ("aab", Cfg(0, universe.DELTA_DICT, 0, 0, 1)), ("abc", Cfg(2, universe.DELTA_DICT, 1, 1, 2)), ("abc", Cfg(2, b"", 0, 2, 3))]
    files = universe.lib_files(specs, ctx.seed)
    return [("lib:%s:%s" % (w, c.name()), f, universe.word_pieces(w, ctx.seed), c) for (w, c), f in zip(specs, files)]


def expected(base, pieces, cfg):
    p = zckref.parse(base)
    exp = {}
    for i, ((off, ln), c) in enumerate(zip(zckref.extents(p), p.chunks)):
        data = cfg.dict if i == 0 else pieces[i - 1]
        exp["d%d" % i] = (len(data), data)
        stored = base[off:off + ln]
        # an entry without data (no dictionary) yields 0 bytes for both requests
        exp["s%d" % i] = (len(stored) if len(data) else 0, stored if len(data) else b"")
    return exp, len(p.chunks)


def work(arg):
    name, base, pieces, cfg, depth, seqs = arg[:6]
    extra = arg[6] if len(arg) > 6 else 0
    slack = arg[7] if len(arg) > 7 else 0
    exp, n = expected(base, pieces, cfg)
    job = "file %s\nnchunks %d\ndepth %d\nextra %d\nslack %d\n" % (base.hex(), n, depth, extra, slack) + "".join("seq %s\n" % s for s in (seqs or []))
    cs = core.drv("chunkreq", job, timeout=3000, env_extra={"VF_BLOB_MAX": "100000000"} if name.startswith("ref:big:") else None)
    res = {"n": 0, "req": 0, "viol": [], "revisit": 0, "outcomes": set()}
    for c in cs:
        q = c.first("Q")
        if not c.done or q is None:
            res["viol"].append(({"check": "C14", "predicate": "crash-or-hang"}, "%s: crash in a request sequence: %s" % (name, c.status()),
                                {"base": base.hex(), "seq": (q or {}).get("seq", "?")}))
            continue
        res["n"] += 1
        ops = q["seq"].split(",")
        outs = q["res"].split(";")
        if len(set(ops)) < len(ops) or ("d%d" % (n - 1)) in ops[:-1] or ("s%d" % (n - 1)) in ops[:-1] or any(o[0] not in "ds" for o in ops[:-1]):
            res["revisit"] += 1
        for k, (op, o) in enumerate(zip(ops, outs)):
            res["req"] += 1
            if op[0] not in "ds":
                # history operation (sequential read, validation): reported, not judged here.  If it left the context in
                # error state (a sequential read that follows a chunk request has no defined position) every later call is
                # refused by design: nothing behind it is judged
                if not o.endswith("e0"):
                    break
                continue
            if ":" not in o:
                ret, data = o, b""
            else:
                ret, hx = o.split(":", 1)
                data = core.unhex(hx)
            el, ed = exp[op]
            good = (ret == str(el) and data == ed)
            res["outcomes"].add(good)
            if not good:
                kind = "data" if op[0] == "d" else "stored"
                which = "dictionary" if op[1:] == "0" else ("last" if int(op[1:]) == n - 1 else "middle")
                prev = ops[k - 1] if k else None
                first = "first-request" if k == 0 else "after-" + ("read-or-scan" if prev[0] not in "ds" else "same-chunk" if prev[1:] == op[1:] else
                                                                   ("last-chunk" if int(prev[1:]) == n - 1 else "other-chunk"))
                res["viol"].append(({"check": "C14", "predicate": "wrong-result", "request": kind, "chunk": which, "history": first,
                                     "comp": cfg.comp, "dict": bool(cfg.dict)},
                                    "%s: sequence %s: request #%d (%s) returned %s with %d bytes; expected %d bytes %s" % (
                                        name, q["seq"], k, op, ret, len(data), el, "(content differs)" if ret == str(el) else ""),
                                    {"base": base.hex(), "seq": q["seq"], "pieces": [x.hex() for x in pieces], "slack": slack,
                                     "cfg": [cfg.comp, cfg.dict.hex(), cfg.uncomp, cfg.chash, cfg.fhash]}))
                break
    return res


def run(ctx):
    depth = 3 if ctx.tier == "quick" else 4
    bs = bases(ctx)
    ctx.bounds = {"files": [b[0] for b in bs], "depth": depth, "alphabet": "data(i), stored(i) for every chunk incl. dictionary and last"}
    ctx.rule = ("case = request sequence replayed on a fresh context; non-trivial = sequence that revisits a chunk or continues "
                "after the last chunk was requested")
    # second family: the alphabet extended by history operations on the same context (sequential reads of 1 and 40 bytes,
    # validate-checksums, find-valid-chunks, a chunk-data request with a buffer of half the chunk's size); their own results are not judged, every chunk request still is
    xdepth = 3 if not ctx.deep else 4
    jobs = [(n, b, p, c, depth if not (ctx.deep and len(p) == 3) else 5, None, 0) for n, b, p, c in bs]
    jobs += [(n, b, p, c, xdepth, None, 1) for n, b, p, c in bs if len(p) == 3 or ctx.deep]
    # the caller's buffer is larger than the chunk (7 and 4096 bytes of slack): the answer is still exactly the chunk
    jobs += [(n, b, p, c, 2 if not ctx.deep else 3, None, 0, sl) for n, b, p, c in bs for sl in (7, 4096)]
    # scale-dependent shapes: chunks larger than one and two 32 KiB buffers, exactly one buffer, one byte more (incompressible)
    for cfg in (Cfg(0, b"", 0, 3, 1), Cfg(2, b"", 0, 1, 1)):
        bigf, bpcs = universe.big_file(cfg, ctx.seed)
        ops = ["d1", "d3", "s3", "d5", "s2", "d2"]
        seqs = ops + ["%s,%s" % (a, b) for a in ops for b in ops]
        for sl in (0, 7):
            jobs.append(("ref:big:%s" % cfg.name(), bigf, bpcs, cfg, 0, seqs, 0, sl))
    ctx.bounds["big_chunks"] = "two files with chunks of 40000, 32768, 70000, 100, 32769 bytes: all ordered pairs of six requests, buffer slack 0 and 7"
    ctx.bounds["with_history_operations"] = {"depth": xdepth, "operations": "read 1, read 40, validate-checksums, find-valid-chunks, chunk data into a half-size buffer"}
    for r in core.pmap(work, jobs):
        ctx.states += r["n"]; ctx.evaluations += r["n"]; ctx.transitions += r["req"]; ctx.nontrivial += r["revisit"]
        ctx.outcomes |= r["outcomes"]
        for sig, what, case in r["viol"]:
            ctx.violation(sig, what, case)
    ctx.sample({"file": bs[0][0], "sequence": "d3,d1,s2", "expect": "slice of chunk 3, slice of chunk 1, stored bytes of chunk 2"})


def replay(case, quiet=True):
    base = bytes.fromhex(case["base"])
    if "pieces" not in case:
        return {"violated": True, "detail": "crash case"}
    cfg = Cfg(case["cfg"][0], bytes.fromhex(case["cfg"][1]), case["cfg"][2], case["cfg"][3], case["cfg"][4])
    r = work(("replay", base, [bytes.fromhex(x) for x in case["pieces"]], cfg, 0, [case["seq"]], 1, case.get("slack", 0)))
    return {"violated": bool(r["viol"]), "detail": [v[1] for v in r["viol"]]}
