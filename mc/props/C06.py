"""C06 - the header checksum covers every header byte.

Space: base files (reference- and library-written, every overall digest type, chunk digests, flags, dictionary, 0-4
chunks, full file and detached header).  For each: every header position x all 255 substitutes; every single-byte
insertion/deletion with the header-size field re-encoded; the stored digest replaced by digests computed with
plausible wrong recipes; and (allocator seam) every substitute again with each single allocation of the open answered with
NULL.  Oracle: no mutant opens (zck_init_read and lead+header in advanced mode); every base opens.
"""
import core, zckref, universe
from universe import Cfg

RECIPES = ["one_byte_short", "digest_zeroed_not_skipped", "detached_magic_hashed", "lead_only_skipped", "body_only",
           "with_trailing_byte"]


def wrong_digest(base, p, recipe):
    t = p.htype
    lead0 = base[5:p.digest_loc]
    body = base[p.lead_len:p.header_len]
    hs = zckref.HASH_SIZES[t]
    if recipe == "one_byte_short":
        return zckref.digest(t, zckref.MAGIC_FILE + lead0 + body[:-1])
    if recipe == "digest_zeroed_not_skipped":
        return zckref.digest(t, zckref.MAGIC_FILE + lead0 + bytes(hs) + body)
    if recipe == "detached_magic_hashed":
        return zckref.digest(t, zckref.MAGIC_HDR + lead0 + body)
    if recipe == "lead_only_skipped":
        return zckref.digest(t, body)
    if recipe == "body_only":
        return zckref.digest(t, zckref.MAGIC_FILE + lead0)
    if recipe == "with_trailing_byte":
        return zckref.digest(t, zckref.MAGIC_FILE + lead0 + body + base[p.header_len:p.header_len + 1])
    raise ValueError(recipe)


def indel_mutants(base, p):
    """single-byte insertions/deletions inside the header (after the lead), with the size field re-encoded so the
    declared length matches; the stored digest is left as it was"""
    out = []
    lead0_type = base[5:5 + len(zckref.enc_ci(p.htype))]
    digest = base[p.digest_loc:p.lead_len]
    body = base[p.lead_len:p.header_len]
    rest = base[p.header_len:]
    for pos in range(len(body) + 1):
        for kind in ("del", "ins0", "insdup"):
            if kind == "del":
                if pos >= len(body):
                    continue
                nb = body[:pos] + body[pos + 1:]
            elif kind == "ins0":
                nb = body[:pos] + b"\0" + body[pos:]
            else:
                if pos >= len(body):
                    continue
                nb = body[:pos] + body[pos:pos + 1] + body[pos:]
            m = base[:5] + lead0_type + zckref.enc_ci(len(nb)) + digest + nb + rest
            out.append((("%s@%d" % (kind, pos)), m))
    return out


def base_files(ctx):
    seed = ctx.seed
    specs = []
    quick = ctx.tier == "quick"
    words = ["", "a", "ab", "aab", "abcd"]
    cfgs = []
    for fh in (0, 1, 2, 3):
        for ch in (0, 1, 2, 3):
            cfgs.append(Cfg(0, b"", 0, ch, fh))
    cfgs += [Cfg(2, universe.DELTA_DICT, 0, 3, 1), Cfg(2, b"", 1, 1, 1), Cfg(0, universe.DELTA_DICT, 1, 2, 0),
             Cfg(2, universe.DELTA_DICT, 1, 2, 1)]
    bases = []
    if quick:
        pick = [("ab", cfgs[5]), ("aab", cfgs[16]), ("a", cfgs[17]), ("abcd", cfgs[3]), ("", cfgs[9]), ("ab", cfgs[19]),
                ("ab", cfgs[12]), ("a", cfgs[15])]      # SHA-512/128 overall digest: the lead is shorter than the reader's first 25-byte read
    else:
        pick = []
        for i, c in enumerate(cfgs):
            pick.append((words[i % len(words)], c))
            if i % 4 == 0:
                pick.append((words[(i + 2) % len(words)], c))
    libf = universe.lib_files(pick, seed)
    for (w, c), lf in zip(pick, libf):
        bases.append(("lib:%s:%s" % (w, c.name()), lf))
        rf = universe.ref_file(w, c, seed)
        bases.append(("ref:%s:%s" % (w, c.name()), rf))
        if not quick or w in ("ab", "a"):
            bases.append(("ref-detached:%s:%s" % (w, c.name()), universe.detach(rf)))
            bases.append(("lib-detached:%s:%s" % (w, c.name()), universe.detach(lf)))
    # optional elements (reference writer only; the library writer cannot produce them)
    for htype in ((1,) if quick else (0, 1)):
        pcs = universe.word_pieces("ab", seed)
        f, h, body = zckref.build_file(pcs, comp=0, htype=htype, ctype=3)
        h.flags = 2
        h.optelems = [(1, b"xyz"), (7, b"")]
        bases.append(("ref-optelems:ab:fh%d" % htype, h.build() + body))
    # value-dependent shape: stored header digests that contain 0x00 at byte 0 / 1 / 2 (a str*-style comparison ends there)
    for fh, pos in (((1, 0), (3, 1)) if quick else ((0, 0), (1, 0), (2, 0), (3, 0), (1, 1), (2, 2), (3, 1))):
        zf = universe.zero_hdr_file(Cfg(0, b"", 0, 3, fh), seed, pos=pos)
        bases.append(("ref-zero-hdigest@%d:fh%d" % (pos, fh), zf))
        if pos == 0:
            bases.append(("ref-zero-hdigest@0-detached:fh%d" % fh, universe.zero_hdr_file(Cfg(0, b"", 0, 3, fh), seed, pos=0, detached=True)))
    # dedupe identical byte strings (library and reference writers agree on uncompressed files)
    seen = {}
    for name, b in bases:
        seen.setdefault(b, name)
    return [(n, b) for b, n in seen.items()]


def pins_of(p):
    return [p.htype, p.hdigest.hex(), p.header_len]


def prev_file(base, mode):
    """the other file a re-used context has seen first: the detached twin of a full file / a full file for a detached header"""
    p = zckref.parse(base)
    if p.detached:
        return zckref.MAGIC_FILE + base[5:]
    return universe.detach(base)


def mode_lines(mode, pins, base=None):
    if mode.startswith("advprev"):
        return ["mode adv", "prev %s %s" % (mode[-1], prev_file(base, mode).hex())]
    return _mode_lines(mode, pins)


def _mode_lines(mode, pins):
    """advlate: advanced open in which the caller pins the genuine type, digest and length between reading the lead and
    reading the header - whatever the library does with pins at that point, the stored checksum still has to match"""
    if mode == "advlate":
        return ["mode adv", "pin type=%d digest=%s len=%d late=1" % (pins[0], pins[1].encode().hex(), pins[2])]
    return ["mode %s" % mode]


def check_base(arg):
    name, base, mode = arg
    p = zckref.parse(base)
    job = mode_lines(mode, pins_of(p), base) + ["base %s" % base.hex(), "file %s" % base.hex(), "subst 0 %d" % p.header_len]
    extra = []
    for r in RECIPES:
        m = base[:p.digest_loc] + wrong_digest(base, p, r) + base[p.lead_len:]
        if m != base:  # e.g. no trailing byte exists after a detached header without dictionary
            extra.append(("recipe:" + r, m))
    if mode == "init":
        extra += indel_mutants(base, p)
    for n, m in extra:
        job.append("file %s" % m.hex())
    cases = core.drv("openenum", "\n".join(job) + "\n")
    res = {"name": name, "mode": mode, "opened": [], "bad_status": [], "mutants": 0, "cksum": 0, "base_opens": None,
           "hlen": p.header_len}
    for c in cases:
        if not c.ok:
            res["bad_status"].append((c.idx, c.status()))
            continue
        if c.idx == 0:
            res["base_opens"] = c.first("E")["opened"] == "1"
        elif 1 <= c.idx <= p.header_len:
            s = c.first("S")
            res["mutants"] += 255
            res["cksum"] += int(s["cksum"])
            if s["opened"] != "-":
                for v in s["opened"].split(","):
                    res["opened"].append(("subst", int(s["pos"]), int(v)))
        else:
            n, m = extra[c.idx - 1 - p.header_len]
            res["mutants"] += 1
            e = c.first("E")
            if "checksum failed" in core.unhex(e["stage"]).decode("utf8", "replace"):
                res["cksum"] += 1
            if e["opened"] == "1":
                res["opened"].append(("file", n, m.hex()))
    return res


def check_alloc(arg):
    """header substitutions x every single allocation failure during the open (allocator seam)"""
    name, base, lo, hi = arg[:4]
    mode = arg[4] if len(arg) > 4 else "init"
    job = (["mode init"] if mode == "init" else ["mode adv", "retry 1"]) + ["allocfail 1", "base %s" % base.hex(), "subst %d %d" % (lo, hi)]
    cases = core.drv("openenum", "\n".join(job) + "\n")
    res = {"name": name, "n": 0, "opened": [], "bad": [], "allocs": 0, "mode": mode}
    for c in cases:
        s = c.first("S")
        if not c.done or s is None:
            # a crash under an allocation failure is outside what C06 claims (see DESIGN.md section 7); it is counted, not judged
            res["bad"].append(c.status())
            continue
        na = int(s["allocs"])
        res["allocs"] = na
        res["n"] += 255 * (na + 2)
        if s["aopened"] != "-":
            for it in s["aopened"].split(","):
                v, k = it.split(":")
                res["opened"].append((int(s["pos"]), int(v), int(k)))
    return res


def check_sized(arg):
    """scale-dependent shape: a reference-written header of exactly 1x / 2x 32 KiB (and one byte less / more); the file must open
    (the reference hashes every byte, so a reader that leaves a block out computes another digest) and substitutions at the
    block seams, at both ends and at a stride must be refused"""
    name, base = arg
    p = zckref.parse(base)
    pos = sorted({q for q in list(range(p.lead_len, p.lead_len + 48)) + list(range(p.header_len - 48, p.header_len)) +
                  [p.lead_len + k + d for k in range(0, p.header_len - p.lead_len + 1, 32768) for d in (-2, -1, 0, 1)] +
                  list(range(p.lead_len, p.header_len, 997)) if p.lead_len <= q < p.header_len})
    res = {"name": name, "n": 0, "opened": [], "base_opens": {}, "bad": []}
    for mode in ("init", "adv"):
        job = ["mode %s" % mode, "base %s" % base.hex(), "file %s" % base.hex()]
        muts = []
        for q in pos:
            for v in (base[q] ^ 0x01, base[q] ^ 0x80, 0x00 if base[q] else 0xff):
                m = bytearray(base); m[q] = v
                muts.append((q, v)); job.append("edit %d 1 %02x" % (q, v))
        cs = core.drv("openenum", "\n".join(job) + "\n")
        for c, mu in zip(cs, [None] + muts):
            e = c.first("E")
            if not c.done or e is None:
                res["bad"].append(c.status()); continue
            res["n"] += 1
            if mu is None:
                res["base_opens"][mode] = e["opened"] == "1"
            elif e["opened"] == "1":
                res["opened"].append((mode, mu[0], mu[1]))
    return res


def region(p, pos):
    if pos < 5:
        return "magic"
    if pos < p.digest_loc:
        return "lead-ints"
    if pos < p.lead_len:
        return "stored-digest"
    if pos < p.index_off:
        return "preface"
    if pos < p.index_off + p.isize:
        return "index"
    return "signatures"


def run(ctx):
    bases = base_files(ctx)
    ctx.bounds = {"base_files": len(bases), "substitutions": "all 255 at every header position",
                  "indels": "every position x {delete, insert 00, duplicate}", "wrong_recipes": RECIPES,
                  "modes": ["zck_init_read", "adv: read_lead+read_header", "advlate: genuine pins set between lead and header", "advprev1: the context validated the lead of the twin under the other identifier first (every second base)"]}
    ctx.rule = ("mutant = (base file, header edit); distinct by construction; non-trivial = mutant that passed lead "
                "parsing and was rejected by the header digest comparison itself")
    args = [(n, b, "init") for n, b in bases] + [(n, b, "adv") for n, b in bases] + [(n, b, "advlate") for n, b in bases]
    # a context with a past: it has validated the lead of the file's twin under the other identifier before
    # zck_init_adv_read() is called again with the file under test (after a complete open of another file this library
    # refuses every further file on the context, so that past would explore nothing)
    args += [(n, b, "advprev1") for n, b in bases[::2]]
    results = core.pmap(check_base, args)
    bmap = dict(bases)
    for r in results:
        base = bmap[r["name"]]
        p = zckref.parse(base)
        ctx.states += r["mutants"] + 1
        ctx.transitions += r["mutants"] + 1
        ctx.evaluations += r["mutants"] + 1
        ctx.nontrivial += r["cksum"]
        ctx.outcomes.add(("base", r["base_opens"]))
        for idx, st in r["bad_status"]:
            ctx.outcomes.add(("crash",))
            ctx.violation({"check": "C06", "predicate": "crash-or-sanitizer-on-open", "mode": r["mode"]},
                          "opening a header mutant crashed: %s" % (st,),
                          {"kind": "rerun", "name": r["name"], "base": base.hex(), "mode": r["mode"]})
        if r["base_opens"] is not True:
            ctx.violation({"check": "C06", "predicate": "valid-base-does-not-open", "writer": r["name"].split(":")[0],
                           "mode": r["mode"]},
                          "unmutated file %s does not open" % r["name"],
                          {"kind": "file", "mode": r["mode"], "file": base.hex(), "base": base.hex(), "expect_open": True, "pins": pins_of(p)})
        for o in r["opened"]:
            ctx.outcomes.add(("opened", o[0]))
            if o[0] == "subst":
                _, pos, v = o
                m = bytearray(base); m[pos] = v
                sig = {"check": "C06", "predicate": "mutant-opens", "edit": "substitute", "region": region(p, pos),
                       "mode": r["mode"]}
                ctx.violation(sig, "%s: header byte %d (%s) %02x->%02x still opens" % (r["name"], pos, region(p, pos),
                                                                                        base[pos], v),
                              {"kind": "file", "mode": r["mode"], "file": bytes(m).hex(), "base": base.hex(), "expect_open": False, "pins": pins_of(p)})
            else:
                _, n, mh = o
                sig = {"check": "C06", "predicate": "mutant-opens", "edit": n.split("@")[0], "mode": r["mode"]}
                ctx.violation(sig, "%s: mutant %s still opens" % (r["name"], n),
                              {"kind": "file", "mode": r["mode"], "file": mh, "base": base.hex(), "expect_open": False, "pins": pins_of(p)})
        ctx.outcomes.add(("rejected",))
    # allocation failures: the comparison must not be skipped when an allocation on the way fails
    quick = ctx.tier == "quick"
    sel = bases[:3] if quick else bases[::2]
    ajobs = []
    for n, b in sel:
        p = zckref.parse(b)
        for lo in range(0, p.header_len, 6):
            ajobs.append((n, b, lo, min(p.header_len, lo + (2 if quick else 6))))
            # ... and a caller of the advanced interface that clears the error after a failed step and calls the step again
            ajobs.append((n, b, lo, min(p.header_len, lo + (2 if quick else 6)), "adv-retry"))
    crashes = 0
    na = 0
    for r in core.pmap(check_alloc, ajobs):
        ctx.states += r["n"]; ctx.transitions += r["n"]; ctx.evaluations += r["n"]
        crashes += len(r["bad"])
        na = max(na, r["allocs"])
        for pos, v, k in r["opened"]:
            base = bmap[r["name"]]
            p = zckref.parse(base)
            ctx.violation({"check": "C06", "predicate": "mutant-opens-under-allocation-failure", "region": region(p, pos), "mode": r["mode"]},
                          "%s: header byte %d (%s) %02x->%02x opens when allocation #%d of the open returns NULL%s" % (
                              r["name"], pos, region(p, pos), base[pos], v, k, " (advanced interface, failed step retried after zck_clear_error)" if r["mode"] != "init" else ""),
                          {"kind": "alloc", "name": r["name"], "base": base.hex(), "pos": pos, "mode": r["mode"]})
    ctx.extra["allocation_failure_part"] = {"bases": len(sel), "allocations_per_open": na, "cases_not_judged_because_the_open_crashed": crashes}
    ctx.bounds["allocation_failures"] = "every single allocation of the open failing x all 255 substitutes at %s header position of %d bases" % (
        "every third" if quick else "every", len(sel))
    # headers of exactly one and two internal buffers
    sized = [("ref-header-%d" % t, universe.header_sized_file(t, ctx.seed)) for t in ((32768, 65536, 32767) if quick else (32768, 65536, 98304, 32767, 32769, 65535))]
    for r in core.pmap(check_sized, sized):
        base = dict(sized)[r["name"]]
        p = zckref.parse(base)
        ctx.states += r["n"]; ctx.transitions += r["n"]; ctx.evaluations += r["n"]
        for st in r["bad"]:
            ctx.violation({"check": "C06", "predicate": "crash-or-sanitizer-on-open", "mode": "sized"}, "opening %s or a mutant of it crashed: %s" % (r["name"], st),
                          {"kind": "sized", "target": int(r["name"].split("-")[-1])})
        for mode, ok in r["base_opens"].items():
            if not ok:
                ctx.violation({"check": "C06", "predicate": "valid-base-does-not-open", "writer": "ref-header-sized", "mode": mode},
                              "reference-written file with a header of exactly %s bytes behind the lead does not open" % r["name"].split("-")[-1],
                              {"kind": "file", "mode": mode, "file": base.hex(), "expect_open": True, "pins": pins_of(p)})
        for mode, q, v in r["opened"]:
            m = bytearray(base); m[q] = v
            ctx.violation({"check": "C06", "predicate": "mutant-opens", "edit": "substitute", "region": region(p, q), "mode": mode, "header": "sized"},
                          "%s: header byte %d (%s) %02x->%02x still opens" % (r["name"], q, region(p, q), base[q], v),
                          {"kind": "file", "mode": mode, "file": bytes(m).hex(), "expect_open": False, "pins": pins_of(p)})
    ctx.bounds["sized_headers"] = "headers of exactly %s bytes behind the lead: base must open, substitutions at block seams, both ends and a stride of 997" % [n.split("-")[-1] for n, _ in sized]
    ctx.sample({"base": bases[0][0], "header_len": results[0]["hlen"], "example_mutant": "byte 7 := 0x00 .. 0xff (255 values)"})
    ctx.sample({"base": bases[-1][0], "recipes": RECIPES})
    ctx.extra["base_files"] = [n for n, _ in bases]


def replay(case, quiet=True):
    if case["kind"] == "file":
        cs = core.drv("openenum", "\n".join(mode_lines(case["mode"], case.get("pins"), bytes.fromhex(case.get("base") or case["file"]))) + "\nbase 00\nfile %s\n" % case["file"])
        c = cs[0]
        if not c.ok:
            return {"violated": True, "detail": c.status()}
        opened = c.first("E")["opened"] == "1"
        return {"violated": opened != case["expect_open"], "detail": {"opened": opened, "expected": case["expect_open"]}}
    if case["kind"] == "sized":
        r = check_sized(("ref-header-%d" % case["target"], universe.header_sized_file(case["target"], int(__import__("os").environ.get("VERIF_SEED", "0") or 0))))
        return {"violated": bool(r["bad"]), "detail": r["bad"][:2]}
    if case["kind"] == "alloc":
        r = check_alloc((case["name"], bytes.fromhex(case["base"]), case["pos"], case["pos"] + 1, case.get("mode", "init")))
        return {"violated": bool(r["opened"]), "detail": r["opened"][:3]}
    if case["kind"] == "rerun":
        r = check_base((case["name"], bytes.fromhex(case["base"]), case["mode"]))
        return {"violated": bool(r["bad_status"]), "detail": r["bad_status"][:3]}
