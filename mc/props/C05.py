"""C05 - range reassembly is fragmentation-independent, verified and confined.

Space: target = header of B (4-5 chunks; none / zstd / dictionary; duplicate chunks) with the missing set M ranging over
ALL non-empty subsets of chunks, the others valid, missing extents pre-filled with 0xAA.  The request is the one the
library itself renders for that marking (C10 judges it).  Response formats: plain body for a single range; multipart
with boundary in {13 hex digits, 'a', 70 characters, gc0p4Jq0M2Yt08jU534c0p, a+b, a.b, (x), =_x?, 'a b' (quoted)},
quoted or not, Content-Range in three spellings, extra part headers before/after, first delimiter with and without a
leading CRLF.  Schedules of the transport: every partition of the response body into callback invocations with one cut
and (thorough) with two cuts, one byte per call, and k-byte pieces for k = 2..17.  Corruption variant: one payload byte
of chunk j flipped, for every requested j.
Oracle (reference reassembler: the payloads the reference server placed in the response, written to their extents):
every invocation returns its full size; final file bytes and per-chunk flags equal the reference's for every partition;
in the corruption variant the invocation that delivers the last byte of chunk j (or an earlier one) reports an error,
chunk j is zero-filled and marked failed, chunks completed before it are valid and correct; bytes outside the extents
of M never change.
"""
import itertools
import core, zckref, universe, httpsim
from universe import Cfg
from httpsim import Style

D = universe.DELTA_DICT

BOUNDARIES = ["5f2a9c0e1b7d3", "a", "B" * 70, "gc0p4Jq0M2Yt08jU534c0p", "a+b", "a.b", "(x)", "=_x?", "a b"]


def styles(thorough):
    out = []
    for bd in BOUNDARIES:
        for quoted in ((True,) if " " in bd else (False, True)):
            out.append(Style(bd, quoted, 0, 0, True))
    for cr, extra, lead, cf in itertools.product(range(3), range(3), (True, False), (True, False)):
        if (cr, extra, lead, cf) != (0, 0, True, True):
            out.append(Style(BOUNDARIES[0], False, cr, extra, lead, cf))
    return out


def targets(ctx):
    specs = [("abca", Cfg(0, b"", 0, 3, 1)), ("abcd", Cfg(2, b"", 0, 3, 1))]
    if ctx.tier == "thorough":
        specs += [("abab", Cfg(2, D, 0, 3, 1)), ("aabb", Cfg(0, D, 0, 1, 0))]
    files = universe.lib_files(specs, ctx.seed)
    return [("lib:%s:%s" % (w, c.name()), f) for (w, c), f in zip(specs, files)]


def requests(tg, limits):
    """ask the library which ranges it requests for every marking: {(name, tmark, limit): range string}"""
    out = {}
    jobs = []
    for name, b in tg:
        p = zckref.parse(b)
        idx = [i for i, c in enumerate(p.chunks) if c.clen > 0]
        cases = []
        for bits in itertools.product("+0", repeat=len(idx)):
            if "0" not in bits:
                continue
            m = ["+"] * len(p.chunks)
            for i, v in zip(idx, bits):
                m[i] = v
            for lim in limits:
                cases.append(("".join(m), lim))
        job = ["file %s" % b.hex()] + ["case mark=%s limit=%d noscan=0 feed=0" % c for c in cases]
        cs = core.drv("ranges", "\n".join(job) + "\n")
        for c, (m, lim) in zip(cs, cases):
            g = c.first("G")
            if not c.done or g is None or g.get("str") in (None, "NULL"):
                raise core.HarnessError("cannot obtain request for %s %s: %s" % (name, m, c.status()))
            out[(name, m, lim)] = core.unhex(g["str"]).decode()
    return out


def expectation(b, p, tmark, req, corrupt=None, fill=0xAA):
    """reference reassembly.  Returns dict(xflags, xfile, xerrby, payloads, covered)"""
    ext = zckref.extents(p)
    rs = httpsim.parse_range_string(req)
    t0 = bytearray([fill]) * len(b)
    t0[:p.header_len] = b[:p.header_len]
    for i, (off, ln) in enumerate(ext):
        if tmark[i] == "+":
            t0[off:off + ln] = b[off:off + ln]
    covered = [i for i, (off, ln) in enumerate(ext) if ln > 0 and tmark[i] != "+" and any(a <= off and off + ln - 1 <= z for a, z in rs)]
    payloads = [bytearray(b[a:z + 1]) for a, z in rs]
    flags = list(tmark)
    xf = bytearray(t0)
    mask = []
    bad_file_off = None
    repl = None
    if isinstance(corrupt, (list, tuple)):       # [chunk, hex of the bytes delivered instead of the chunk's stored bytes]
        corrupt, repl = corrupt[0], bytes.fromhex(corrupt[1])
    if corrupt is not None:
        off, ln = ext[corrupt]
        bad_file_off = off + ln // 2
        for (a, z), pay in zip(rs, payloads):
            if a <= bad_file_off <= z:
                if repl is not None:
                    assert len(repl) == ln
                    pay[off - a:off - a + ln] = repl
                else:
                    pay[bad_file_off - a] ^= 0x04
    for i in covered:
        off, ln = ext[i]
        if corrupt is None or i < corrupt:
            flags[i] = "+"
            xf[off:off + ln] = b[off:off + ln]
        elif i == corrupt:
            flags[i] = "!"
            xf[off:off + ln] = bytes(ln)
        else:
            flags[i] = "x"
            mask.append((off, off + ln - 1))
    return {"xflags": "".join(flags), "xfile": bytes(xf), "payloads": [bytes(x) for x in payloads], "covered": covered, "mask": mask,
            "last_byte_of_corrupt": (ext[corrupt][0] + ext[corrupt][1] - 1) if corrupt is not None else None, "ranges": rs}


def make_case(b, p, tmark, req, st, corrupt, cuts, limit):
    e = expectation(b, p, tmark, req, corrupt)
    if isinstance(corrupt, (list, tuple)):
        corrupt = corrupt[0]
    hdr, body, layout = httpsim.respond(b, req, st, e["payloads"])
    xerrby = -1
    if corrupt is not None:
        lb = e["last_byte_of_corrupt"]
        for (boff, ln, foff) in layout:
            if foff <= lb < foff + ln:
                xerrby = boff + (lb - foff)
    cuts, _, opts = cuts.partition("|")      # "sweep1|appcb=1 cbshape=1": how the callbacks are registered and called
    line = "case tmark=%s limit=%d hdr=%s body=%s cuts=%s xflags=%s xfile=%s xerrby=%d" % (
        tmark, limit, ";".join(h.hex() for h in hdr), body.hex() or "-", cuts, e["xflags"], e["xfile"].hex(), xerrby)
    if opts.startswith("dropat="):
        # the connection dropped after n body bytes of a first response; the client resets the zckDL, sets the same range again
        # and receives the complete response: the outcome must be that of the complete response alone
        n = int(opts.split("=")[1])
        line = line.replace(" body=%s " % (body.hex() or "-"), " body=%s " % (body[:n].hex() or "-"), 1)
        line += " hdr2=%s body2=%s between=2" % (";".join(h.hex() for h in hdr) or "-", body.hex() or "-")
    elif opts:
        line += " " + opts
    if e["mask"]:
        line += " xmask=" + ",".join("%d-%d" % m for m in e["mask"])
    return line, len(body), layout


def work(arg):
    name, b, items, timeout = arg   # items: (tmark, limit, req, style or None, corrupt, cuts)
    p = zckref.parse(b)
    job = ["tgt %s" % b.hex(), "timeout %d" % timeout, "chunk 4"]
    meta = []
    for tmark, limit, req, st, corrupt, cuts in items:
        line, blen, layout = make_case(b, p, tmark, req, st, corrupt, cuts, limit)
        job.append(line)
        meta.append((blen, layout))
    cs = core.drv("feed", "\n".join(job) + "\n", timeout=7200)
    res = {"n": 0, "parts": 0, "inner": 0, "viol": [], "outcomes": set()}
    for c, (tmark, limit, req, st, corrupt, cuts), (blen, layout) in zip(cs, items, meta):
        res["n"] += 1
        f = c.first("F")
        multi = "," in req
        case = {"name": name, "b": b.hex(), "tmark": tmark, "limit": limit, "req": req, "corrupt": corrupt, "cuts": cuts,
                "style": None if st is None else [st.boundary, st.quoted, st.cr_case, st.extra, st.lead_crlf, st.ctype_first]}
        bclass = "plain" if not multi else ("hex" if st.boundary == BOUNDARIES[0] else
                                           ("regex-metachar" if any(ch in st.boundary for ch in "+.()?*[]{}|^$\\") else "other"))
        klass = {"check": "C05", "format": "multipart" if multi else "plain", "boundary": bclass, "corrupted": corrupt is not None,
                 "callbacks": (cuts.partition("|")[2] or "default").split("=")[0] if "dropat" in cuts else (cuts.partition("|")[2] or "default"),
                 "quoted": bool(st and st.quoted), "spelling": None if not multi else [st.cr_case, st.extra, st.lead_crlf, st.ctype_first]}
        what0 = "%s missing=%s limit=%d request=%s %s%s cuts=%s" % (name, tmark, limit, req, st.name() if multi else "plain",
                                                                 " corrupt-chunk-%s" % (corrupt if not isinstance(corrupt, (list, tuple)) else "%d-twin" % corrupt[0]) if corrupt is not None else "", cuts)
        if not c.done or f is None:
            res["viol"].append((dict(klass, predicate="crash-or-hang"), "%s: %s" % (what0, c.status()), case))
            continue
        n, match = int(f["n"]), int(f["match"])
        res["parts"] += n
        # partitions cutting inside a part header or inside a chunk payload
        if cuts.startswith("sweep1") and "|" not in cuts:
            inpay = sum(ln - 1 for (_, ln, _) in layout if ln > 1)
            res["inner"] += n - len(layout) * 2
        res["outcomes"].add((multi, corrupt is not None, match == n))
        if match != n:
            o = c.first("O") or {}
            det = "first differing partition cuts=%s: invocations=%s failing=%s flags=%s (expected %s)" % (
                o.get("cuts"), o.get("nb"), o.get("bad"), o.get("flags"), make_case(b, p, tmark, req, st, corrupt, cuts, limit)[0].split("xflags=")[1].split(" ")[0])
            pred = "result-depends-on-fragmentation-or-differs-from-reference" if match > 0 else "well-formed-response-not-reassembled"
            if corrupt is not None:
                pred = "corrupted-chunk-not-handled-as-specified"
            res["viol"].append((dict(klass, predicate=pred), "%s: %d of %d partitions differ from the reference; %s" % (what0, n - match, n, det), case))
    return res


def run(ctx):
    thorough = ctx.tier == "thorough"
    tg = targets(ctx)
    reqs = requests(tg, [-1, 1, 2])
    sts = styles(thorough)
    jobs = []
    default = Style(BOUNDARIES[0])
    nreq = 0
    for name, b in tg:
        p = zckref.parse(b)
        marks = sorted({m for (n_, m, l) in reqs if n_ == name})
        items = []
        for m in marks:
            req = reqs[(name, m, -1)]
            nreq += 1
            multi = "," in req
            base_cuts = ["-", "all1", "sweep1"] + ["k%d" % k for k in range(2, 18)]
            for cuts in base_cuts:
                items.append((m, -1, req, default, None, cuts))
            # corruption of every requested chunk
            e = expectation(b, p, m, req)
            for j in e["covered"]:
                for cuts in ("-", "all1", "sweep1", "k7"):
                    items.append((m, -1, req, default, j, cuts))
            # the other ways the documented interface can be driven: the application's own callbacks registered behind the
            # library's, and fwrite-style (size, nmemb) other than libcurl's (1, n)
            for opts in ("appcb=1", "cbshape=1", "cbshape=2", "appcb=1 cbshape=1"):
                for cuts in ("-", "k7", "sweep1") if opts != "cbshape=2" else ("k6", "k9"):
                    items.append((m, -1, req, default, None, cuts + "|" + opts))
                for j in e["covered"][:2]:
                    items.append((m, -1, req, default, j, "k7|" + opts))
            if m in marks[:2] + marks[-2:]:
                _, blen, layout = make_case(b, p, m, req, default, None, "-", -1)
                # only cuts that complete no chunk: the second request then is the same as the first (updates in which chunks
                # were completed before the drop are C04's dropped-connection dimension, where the server answers each request)
                first_len = zckref.extents(p)[e["covered"][0]][1]
                for n in range(0, min(blen, layout[0][0] + first_len)):
                    items.append((m, -1, req, default, None, "-|dropat=%d" % n))
            for lim in (1, 2):
                r2 = reqs[(name, m, lim)]
                if r2 != req:
                    items.append((m, lim, r2, default, None, "sweep1"))
                    items.append((m, lim, r2, default, None, "all1"))
        # every spelling on two multi-range markings (one with merged neighbours, one alternating)
        multis = [m for m in marks if reqs[(name, m, -1)].count(",") >= 1]
        chosen = multis[:1] + multis[-1:] if not thorough else multis
        for m in chosen:
            req = reqs[(name, m, -1)]
            for st in sts:
                for cuts in ("-", "all1", "sweep1"):
                    items.append((m, -1, req, st, None, cuts))
                if thorough:
                    e = expectation(b, p, m, req)
                    items.append((m, -1, req, st, e["covered"][-1], "sweep1"))
        for ch in core.chunks(items, 24):
            jobs.append((name, b, ch, 60000))
        if thorough:
            # all two-cut partitions: default spelling on every multi-range marking of this target, the other spellings on one
            two = [(m, -1, reqs[(name, m, -1)], default, None, "sweep2") for m in multis[:6]]
            two += [(m, -1, reqs[(name, m, -1)], default, expectation(b, p, m, reqs[(name, m, -1)])["covered"][0], "sweep2") for m in multis[:2]]
            pick = [Style("a+b"), Style("a b", True), Style(BOUNDARIES[0], False, 1, 1, False, False), Style("B" * 70, True, 2, 2, True, True)]
            two += [(multis[-1], -1, reqs[(name, multis[-1], -1)], st, None, "sweep2") for st in pick]
            singles = [m for m in marks if "," not in reqs[(name, m, -1)]]
            two += [(m, -1, reqs[(name, m, -1)], default, None, "sweep2") for m in singles[:2]]
            # split each sweep2 by first-cut ranges so that the 16 workers share it
            for it in two:
                blen = make_case(b, p, it[0], it[2], it[3], it[4], "-", -1)[1]
                step = max(8, blen // 24)
                for lo in range(1, blen, step):
                    jobs.append((name, b, [(it[0], it[1], it[2], it[3], it[4], "sweep2:%d:%d" % (lo, min(blen, lo + step)))], 1200000))
    # every character RFC 2046 allows in a boundary, at the start, in the middle and at the end of a short boundary (blank not
    # at the end), quoted; unquoted as well for the characters that may appear in an unquoted parameter value
    name, b = tg[0]
    multis0 = sorted(m for (n_, m, l) in reqs if n_ == name and reqs[(n_, m, -1)].count(",") >= 1)
    if not multis0:
        # on this tree no marking of the first target yields a request of two or more ranges (non-adjacent missing chunks must
        # give separate ranges - C10's subject); the boundary family needs one: fall back to whatever the last marking asks for
        multis0 = sorted(m for (n_, m, l) in reqs if n_ == name)
        ctx.note("no multi-range request on %s: the boundary-alphabet family runs on a single-range request" % name)
    m0 = multis0[-1]
    bitems = []
    bchars = "'()+_,-./:=? "
    token_ok = "'+_-."
    seen_b = set()
    for ch in bchars + "0aZ":
        for bd in ("x" + ch + "y", ch + "xy", "xy" + ch, ch):
            if bd.endswith(" ") or bd in seen_b:
                continue
            seen_b.add(bd)
            for quoted in ((True, False) if (ch in token_ok or ch.isalnum()) else (True,)):
                for cuts in ("-", "all1", "k5"):
                    bitems.append((m0, -1, reqs[(name, m0, -1)], Style(bd, quoted, 0, 0, True), None, cuts))
    for ch in core.chunks(bitems, 24):
        jobs.append((name, b, ch, 60000))
    # digest twins (value-dependent shape): the payload delivered for a chunk is other bytes of the same length whose digest
    # shares its leading 0x00 byte with the chunk's digest; chunk must end failed and zero-filled like any other mismatch
    for cfg in (Cfg(0, b"", 0, 3, 1), Cfg(2, b"", 0, 1, 1)):
        good, mut, content, ci, limit, Q = universe.twin_file(cfg, ctx.seed, at=1)
        pg = zckref.parse(good)
        off, ln = zckref.extents(pg)[ci]
        tname = "ref:twin:%s" % cfg.name()
        treqs = requests([(tname, good)], [-1])
        titems = []
        for (n_, m, l), req in sorted(treqs.items()):
            if m[ci] != "0":
                continue
            for cuts in ("-", "all1", "sweep1"):
                titems.append((m, -1, req, default, [ci, mut[off:off + ln].hex()], cuts))
        for ch in core.chunks(titems, 24):
            jobs.append((tname, good, ch, 60000))
    ctx.bounds = {}
    # scale-dependent shapes: chunks larger than one and two 32 KiB buffers (and than the transport's 16 KiB pieces), exactly one
    # buffer, one byte more; each alone and all together missing, intact and with each requested chunk corrupted (the
    # zero-fill of a failed chunk runs through the same buffer loop)
    for cfg in (Cfg(0, b"", 0, 3, 1), Cfg(2, b"", 0, 1, 1)):
        bigf, _ = universe.big_file(cfg, ctx.seed)
        pbig = zckref.parse(bigf)
        bname = "ref:big:%s" % cfg.name()
        nb = len(pbig.chunks)
        bmarks = ["".join("0" if j == i else "+" for j in range(nb)) for i in range(1, nb)] + ["+" + "0" * (nb - 1), "+0+0+0"[:nb]]
        job = ["file %s" % bigf.hex()] + ["case mark=%s limit=-1 noscan=0 feed=0" % m for m in bmarks]
        breq = {}
        for c, m in zip(core.drv("ranges", "\n".join(job) + "\n"), bmarks):
            breq[m] = core.unhex(c.first("G")["str"]).decode()
        bitems2 = []
        for m in bmarks:
            for cuts in ("-", "k16384", "k4097", "k32768", "k40000"):
                bitems2.append((m, -1, breq[m], default, None, cuts))
            for j in expectation(bigf, pbig, m, breq[m])["covered"]:
                for cuts in ("-", "k16384"):
                    bitems2.append((m, -1, breq[m], default, j, cuts))
        for ch in core.chunks(bitems2, 4):
            jobs.append((bname, bigf, ch, 60000))
    ctx.bounds["boundary_alphabet"] = "%d boundaries: each RFC 2046 boundary character at start / middle / end / alone" % len(seen_b)
    ctx.bounds = dict(ctx.bounds or {}, **{"targets": [t[0] for t in tg], "missing_sets": "all non-empty subsets of chunks", "requests": nreq,
                  "spellings": len(sts), "cuts": "whole, 1-byte, k=2..17, every single cut" + (", every pair of cuts (selected responses)" if thorough else ""),
                  "corruption": "one flipped payload byte in every requested chunk; a digest twin of the chunk"})
    ctx.rule = ("case = (marking, response spelling, partition of the body into callback invocations); state count = partitions executed; "
                "non-trivial = single-cut partitions whose cut is not at a payload edge")
    for r in core.pmap(work, jobs):
        ctx.states += r["parts"]; ctx.evaluations += r["parts"]; ctx.transitions += r["parts"] * 2; ctx.nontrivial += r["inner"]
        ctx.outcomes |= r["outcomes"]
        for sig, what, case in r["viol"]:
            ctx.violation(sig, what, case)
    ctx.extra["cases"] = sum(len(j[2]) for j in jobs)
    ctx.sample({"target": tg[0][0], "missing": "+0+0+", "response": "multipart, boundary 5f2a9c0e1b7d3", "cuts": "every single cut",
                "expect": "identical file and flags for every cut, all callbacks accept"})


def replay(case, quiet=True):
    st = None
    if case["style"]:
        s = case["style"]
        st = Style(s[0], s[1], s[2], s[3], s[4], s[5])
    r = work((case["name"], bytes.fromhex(case["b"]), [(case["tmark"], case["limit"], case["req"], st, case["corrupt"], case["cuts"])], 1200000))
    return {"violated": bool(r["viol"]), "detail": [v[1] for v in r["viol"]]}
