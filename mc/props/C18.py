"""C18 - checksum backends are interchangeable across builds.

Both builds (bundled SHA code / OpenSSL) are compiled from the working tree.  Space: 4 digest types x every message
length 0..300 x every split into two updates (all split pairs at the padding edges) x content families; one long
message in 1 MiB updates.  Oracle: three-way equality of bundled build, OpenSSL build and CPython's built-in _sha*
modules (an implementation that is neither of the two).  Files: each build writes the tiny configurations and medium
contents; outputs must be byte-identical and cross-read identically.
"""
PROMOTE = True   # quick runs the former thorough bound (seconds); thorough goes deeper where a deeper bound is defined (ctx.deep)
import core, zckref, universe, hashlib

EDGE = [55, 56, 63, 64, 65, 111, 112, 119, 120, 127, 128, 129]


def third(t, data):
    import _sha1, _sha256, _sha512
    if t == 0:
        return _sha1.sha1(data).digest()
    if t == 1:
        return _sha256.sha256(data).digest()
    if t == 2:
        return _sha512.sha512(data).digest()
    return _sha512.sha512(data).digest()[:16]


def fill(n, fam, seed):
    if fam == "z":
        return bytes(n)
    if fam == "f":
        return b"\xff" * n
    if fam == "c":
        return bytes(i % 251 for i in range(n))
    x = (0x9E3779B97F4A7C15 ^ (seed * 0x100000001B3)) & (2 ** 64 - 1)
    out = bytearray()
    for _ in range(n):
        x ^= (x << 13) & (2 ** 64 - 1)
        x ^= x >> 7
        x ^= (x << 17) & (2 ** 64 - 1)
        out.append((x >> 32) & 0xff)
    return bytes(out)


def run_job(arg):
    variant, line = arg
    cs = core.drv("hash", line + "\n", variant, timeout=3000)
    c = cs[0]
    return {"variant": variant, "line": line, "ok": c.done, "status": c.status(), "H": c.all("H"), "B": c.all("B"), "G": c.all("G")}


def judge(line, r, name, seed):
    """problems of one job result of one build: list of (signature, what, case); plus counters"""
    variant = "asan" if name == "openssl" else "asan-bundled"
    out = []
    cnt = {"states": 0, "transitions": 0, "nontrivial": 0, "outcomes": set()}
    toks = dict(t.split("=") for t in line.split()[1:])
    t = int(toks["type"])
    if line.startswith("msg"):
        fam = toks["family"]
        data = fill(int(toks["hi"]), fam, seed)
        for h in r["H"]:
            n = int(h["len"])
            blk = 64 if t < 2 else 128
            if "error" in h:
                out.append(({"check": "C18", "predicate": "hash-error", "build": name, "type": t},
                            "%s build: hashing %d bytes failed" % (name, n), {"kind": "job", "build": name, "line": line}))
                continue
            cnt["states"] += int(h["splits"]) + 1
            cnt["transitions"] += int(h["splits"]) * 2 + 1
            if n % blk >= blk - (9 if t < 2 else 17) or n % blk == 0:
                cnt["nontrivial"] += 1
            exp = third(t, data[:n])
            if zckref.digest(t, data[:n]) != exp:
                raise core.HarnessError("hashlib and _sha* disagree")
            cnt["outcomes"].add("match" if h["d"] == exp.hex() else "differ")
            if h["d"] != exp.hex():
                out.append(({"check": "C18", "predicate": "digest-differs-from-standard", "build": name, "type": t},
                            "%s build: %s of %d bytes (family %s) is %s, standard says %s" % (
                                name, zckref.HASH_NAMES[t], n, fam, h["d"], exp.hex()),
                            {"kind": "job", "build": name, "line": "msg type=%d family=%s seed=%d lo=%d hi=%d" % (t, fam, seed, n, n)}))
            if int(h["bad"]):
                out.append(({"check": "C18", "predicate": "digest-depends-on-update-split", "build": name, "type": t},
                            "%s build: %s of %d bytes differs for %s split(s) into update calls" % (name, zckref.HASH_NAMES[t], n, h["bad"]),
                            {"kind": "job", "build": name, "line": line}))
    else:
        n = int(toks["len"]); piece = int(toks["piece"])
        pc = fill(piece, "c", 0)
        hh = {0: hashlib.sha1, 1: hashlib.sha256, 2: hashlib.sha512, 3: hashlib.sha512}[t]()
        done = 0
        while done < n:
            m = min(piece, n - done)
            hh.update(pc[:m]); done += m
        exp = hh.digest()[:zckref.HASH_SIZES[t]]
        cnt["states"] += 1; cnt["transitions"] += (n + piece - 1) // piece; cnt["nontrivial"] += 1
        g = r["G"][0]["d"] if r["G"] else "none"
        if g != exp.hex():
            out.append(({"check": "C18", "predicate": "digest-differs-from-standard", "build": name, "type": t, "long": True},
                        "%s build: %s of a %d-byte message is %s, standard says %s" % (name, zckref.HASH_NAMES[t], n, g, exp.hex()),
                        {"kind": "job", "build": name, "line": line}))
    return out, cnt


def run(ctx):
    quick = ctx.tier == "quick"
    hi = 600 if ctx.deep else 300
    fams = ["c", "p"] if quick else ["z", "f", "c", "p"]
    pairs = [56, 64, 112, 128] if quick else EDGE
    lines = []
    for t in (0, 1, 2, 3):
        for fam in fams:
            for lo, h in ((0, 100), (101, 200), (201, 300)) + (((301, 400), (401, 500), (501, 600)) if ctx.deep else ()):
                lines.append("msg type=%d family=%s seed=%d lo=%d hi=%d pairs=%s" % (
                    t, fam, ctx.seed, lo, min(h, hi), ",".join(str(p) for p in pairs if lo <= p <= h) or "-1"))
    biglen = (1 << 29) + 64   # the bit count no longer fits 32 bits
    for t in ((0, 1, 2, 3) if not quick else (1, 2)):
        lines.insert(0, "big type=%d len=%d piece=%d" % (t, biglen, 1048576))
    args = [(v, l) for l in lines for v in ("asan", "asan-bundled")]
    res = core.pmap(run_job, args)
    ctx.bounds = {"lengths": "0..%d" % hi, "families": fams, "two_cut_lengths": pairs, "types": [0, 1, 2, 3],
                  "builds": ["openssl", "bundled"], "long_message": biglen}
    ctx.rule = ("case = (build, digest type, length, split, family); non-trivial = message whose padding spills into a "
                "further block or that ends on a block edge")
    for r in res:
        name = "openssl" if r["variant"] == "asan" else "bundled"
        if not r["ok"]:
            ctx.violation({"check": "C18", "predicate": "crash-or-sanitizer", "build": name},
                          "hash job failed on the %s build: %s" % (name, r["status"]), {"kind": "job", "build": name, "line": r["line"]})
            continue
        probs, cnt = judge(r["line"], r, name, ctx.seed)
        ctx.states += cnt["states"]; ctx.transitions += cnt["transitions"]; ctx.evaluations += cnt["states"]
        ctx.nontrivial += cnt["nontrivial"]; ctx.outcomes |= cnt["outcomes"]
        for sig, what, case in probs:
            ctx.violation(sig, what, case)
    files_part(ctx)
    ctx.sample({"type": "SHA-512/128", "len": 111, "split": "every a in 0..111", "builds": ["openssl", "bundled"], "third": "_sha512"})
    ctx.sample({"type": "SHA-256", "len": 64, "two_cuts": "every (a,b) with 0<=a<=b<=64"})


def files_part(ctx):
    """files written by both builds are byte-identical, and each reads identically under the other build"""
    quick = ctx.tier == "quick"
    cfgs = universe.small_cfgs() if quick else universe.all_cfgs()
    words = ["abca"] if quick else ["abca", "", "d"]
    specs = [(w, c) for c in cfgs for w in words]
    fa = universe.lib_files(specs, ctx.seed, "asan")
    fb = universe.lib_files(specs, ctx.seed, "asan-bundled")
    b = core.blocks(ctx.seed)
    for (w, c), x, y in zip(specs, fa, fb):
        ctx.states += 2; ctx.evaluations += 2; ctx.transitions += 2
        if x != y:
            ctx.violation({"check": "C18", "predicate": "files-differ-between-builds", "cfg": c.name()},
                          "word %r cfg %s: the two builds wrote different files" % (w, c.name()),
                          {"kind": "files", "word": w, "cfg": [c.comp, c.dict.hex(), c.uncomp, c.chash, c.fhash]})
    # cross-read: every file written by the OpenSSL build is read by the bundled build and vice versa
    for variant, files in (("asan-bundled", fa), ("asan", fb)):
        job = ["scheds 7;32768"]
        for (w, c), f in zip(specs, files):
            content = b"".join(b[ch] for ch in w)
            job.append("expect %s" % (content.hex() or "-"))
            job.append("file %s" % f.hex())
        cs = core.drv("readenum", "\n".join(job) + "\n", variant)
        for (w, c), case in zip(specs, cs):
            k = case.first("K")
            ctx.states += 1; ctx.evaluations += 2; ctx.transitions += 2
            if not case.done or k is None or int(k["s"]) != 2:
                ctx.violation({"check": "C18", "predicate": "cross-read-fails", "reader": variant, "cfg": c.name()},
                              "file written by the other build does not read back under %s: %s %s" % (variant, k, case.status()),
                              {"kind": "files", "word": w, "cfg": [c.comp, c.dict.hex(), c.uncomp, c.chash, c.fhash]})
    ctx.bounds["files"] = "%d (word, configuration) pairs written by both builds, cross-read with 2 schedules" % len(specs)


def replay(case, quiet=True):
    import os
    seed = int(os.environ.get("VERIF_SEED", "0") or 0)
    if case["kind"] == "job":
        variant = "asan" if case["build"] == "openssl" else "asan-bundled"
        r = run_job((variant, case["line"]))
        if not r["ok"]:
            return {"violated": True, "detail": r["status"]}
        probs, _ = judge(case["line"], r, case["build"], seed)
        return {"violated": bool(probs), "detail": [p[1] for p in probs][:3]}
    if case["kind"] == "files":
        c = universe.Cfg(case["cfg"][0], bytes.fromhex(case["cfg"][1]), case["cfg"][2], case["cfg"][3], case["cfg"][4])
        x = universe.lib_files([(case["word"], c)], seed, "asan")[0]
        y = universe.lib_files([(case["word"], c)], seed, "asan-bundled")[0]
        if x != y:
            return {"violated": True, "detail": "files differ"}
        b = core.blocks(seed)
        content = b"".join(b[ch] for ch in case["word"])
        for variant, f in (("asan-bundled", x), ("asan", y)):
            cs = core.drv("readenum", "scheds 7;32768\nexpect %s\nfile %s\n" % (content.hex() or "-", f.hex()), variant)
            k = cs[0].first("K")
            if not cs[0].done or k is None or int(k["s"]) != 2:
                return {"violated": True, "detail": "cross-read fails under %s: %s" % (variant, k)}
        return {"violated": False, "detail": "identical and cross-readable"}
