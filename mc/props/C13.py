"""C13 - reported metadata equals the file's; unrepresentable values are rejected.

Space: every header the reference writer can emit within: overall digest x chunk digest x flags {0,2,4,6} with 0-2
optional elements of size 0-3 x compression {0,2} x up to 2 entries with stored/uncompressed sizes from a boundary set
(sums crossing 2^63 and 2^64), 3-4 entries with small sizes; canonical and zero-padded integers; re-sealed mutations:
count != entries, 10/11-byte integers, huge values in int-typed fields, unknown flag bits.
Oracle: if the open succeeds every getter and the chunk iteration equal the reference parser (exact integers); if the
reference says malformed the open must fail.
"""
PROMOTE = True   # quick runs the former thorough bound (seconds); thorough goes deeper where a deeper bound is defined (ctx.deep)
import itertools
import core, zckref
from zckref import Header, Chunk, enc_ci

BIG = [0, 1, 127, 128, (1 << 31) - 1, 1 << 31, 1 << 32, (1 << 63) - 1, 1 << 63, (1 << 64) - 1]
SECOND = [1, (1 << 63) - 1]


def optelem_variants(thorough):
    v = [()]
    sizes = (0, 1, 3) if not thorough else (0, 1, 2, 3)
    for s in sizes:
        v.append(((5, s),))
    for s1, s2 in itertools.product((0, 3) if not thorough else sizes, repeat=2):
        v.append(((1, s1), (300, s2)))
    return v


def specs(ctx):
    thorough = ctx.tier == "thorough"
    digs = list(itertools.product((0, 1, 2, 3), repeat=2)) if thorough else [(1, 3), (0, 0), (2, 2), (3, 1)]
    out = []
    big = BIG if thorough else [0, 1, 128, (1 << 31), (1 << 32), (1 << 63) - 1, 1 << 63, (1 << 64) - 1]
    if ctx.deep:
        # every length boundary of the integer encoding (7 bits per byte) and the 32/63/64-bit limits, each -1/+0
        big = sorted(set(BIG) | {(1 << (7 * k)) - d for k in range(1, 10) for d in (0, 1)} | {(1 << 31) + 1, (1 << 32) - 1, (1 << 62), (1 << 63) + 1, (1 << 64) - 2})
    entry_sets = [()]
    for a in itertools.product(big, repeat=2):
        entry_sets.append((a,))
    for a in itertools.product(big, repeat=2):
        for b in itertools.product(SECOND, repeat=2):
            entry_sets.append((a, b))
    for n in (3, 4):
        for sz in itertools.product((1, 128), repeat=n):
            entry_sets.append(tuple((s, s) for s in sz))
    for (ht, ct) in digs:
        for flags in (0, 2, 4, 6):
            oes = optelem_variants(thorough) if flags & 2 else [None]
            for comp in (0, 2):
                for oe in oes:
                    # the optional-element dimension is crossed with a reduced entry dimension
                    es = entry_sets if (oe is None or oe == ()) else entry_sets[:1] + entry_sets[1:40:7] + entry_sets[-4:]
                    for e in es:
                        out.append((ht, ct, flags, comp, oe, e, None, 0))
    # running sums that wrap or just reach a limit only together with the entries in front: a small prefix P followed
    # by a stored size of 2^64-P, 2^63-P, ..., and sizes placed so that header length + sum lands on 2^63 -1/+0/+1
    M64, M63 = 1 << 64, 1 << 63
    for (ht, ct) in digs:
        for flags in (0, 4):
            for prefix in (((1, 1),), ((128, 128),), ((1, 1), (1, 1)), ((0, 0), (16, 16)), ((M63 - 1, 1),), ((1 << 62, 1), (1 << 62, 1))):
                P = sum(cl for cl, _ in prefix)
                hl = len(build((ht, ct, flags, 0, None, prefix + ((1 << 62, 1),), None, 0)))
                lasts = {M64 - P, M64 - P - 1, M64 - P + 1, M64 - 1, M63 - P, M63 - P - 1, M63 - P + 1, M63, M63 - 1}
                lasts |= {M63 - P - hl + d for d in (-2, -1, 0, 1, 2)} | {M64 - P - hl + d for d in (-1, 0, 1)}
                for last in sorted(v for v in lasts if 0 < v < M64):
                    for tail in ((), ((1, 1),)):
                        out.append((ht, ct, flags, 0, None, prefix + ((last, 1),) + tail, None, 0))
                        out.append((ht, ct, flags, 0, None, prefix + ((1, last),) + tail, None, 0))
    # padded (non-canonical) encodings of sizes, and the re-sealed mutations, on a reduced product
    base = [(ht, ct, fl, 0, (() if fl & 2 else None), e) for (ht, ct) in digs[:4] for fl in (0, 4, 2)
            for e in [((0, 0),), ((0, 0), (5, 5)), ((3, 7), (5, 5), (1, 1))]]
    for b in base:
        for pad in (1, 2, 8, 9, 10):
            out.append(b + (None, pad))
        n = len(b[5])
        for cnt in sorted({0, 1, n - 1, n + 1, n + 2, 127, 128, 1 << 31, (1 << 64) - 1} - {n}):
            if cnt >= 0:
                out.append(b + (("count", enc_ci(cnt).hex()),))
                out[-1] = out[-1] + (0,)
        for field in ("comp", "isize", "ctype", "count", "sigcount", "flags", "htype", "hsize"):
            for val, pad in ((0, 9), (0, 10), (1, 9), (1, 10), (1 << 31, 0), (1 << 32, 0), ((1 << 32) + 1, 0), (1 << 63, 0),
                             ((1 << 64) - 1, 0), (1 << 64, 0), ((1 << 64) + 2, 0), (1 << 70, 0)):
                out.append(b + ((field, enc_ci(val, pad).hex()), 0))
        for d in (-1, 1, -2, 2, -16, 16, -20):
            out.append(b + (("isize_delta", str(d)), 0))
        for bit in (8, 16, 64, 1 << 7, 1 << 31, 1 << 32, 1 << 62, 1 << 63):
            out.append(b + (("flags", enc_ci(b[2] | bit).hex()), 0))
        out.append(b + (("flags", enc_ci(b[2] | 1).hex()), 0))  # streams
    return out


def build(spec):
    ht, ct, flags, comp, oe, entries, mut, pad = spec
    cs = zckref.HASH_SIZES[ct]
    hs = zckref.HASH_SIZES[ht]
    chunks = []
    for i, (cl, ul) in enumerate(entries):
        c = Chunk(bytes([i + 1]) * cs, cl, ul, bytes([0x80 + i]) * cs)
        if pad:
            room = 10 - len(enc_ci(cl))
            c.raw_clen = enc_ci(cl, min(pad, room)) if room > 0 else None
            room = 10 - len(enc_ci(ul))
            c.raw_ulen = enc_ci(ul, min(pad, room)) if room > 0 else None
        chunks.append(c)
    h = Header(ht, ct, flags, comp, chunks, b"\xdd" * hs)
    if oe is not None:
        h.optelems = [(i, bytes([0x41 + k]) * s) for k, (i, s) in enumerate(oe)]
    if mut and mut[0] == "isize_delta":
        n = len(h.index_body()) + int(mut[1])
        if n >= 0:
            h.raw["isize"] = enc_ci(n)
    elif mut:
        h.raw[mut[0]] = bytes.fromhex(mut[1])
    return h.build()


def expected(buf):
    """(None, reason) if the reference says malformed, else dict of getter values"""
    try:
        p = zckref.parse(buf)
    except zckref.Invalid as e:
        return None, str(e)
    if not p.count_ok:
        return None, "chunk count %d != %d entries" % (p.count, len(p.chunks))
    if p.comp not in (0, 2):
        return None, "unknown compression"
    if p.sig_count:
        return None, "signatures"
    hl = p.header_len
    ch = []
    run = 0
    for i, c in enumerate(p.chunks):
        ch.append((i, c.digest.hex(), c.udigest.hex() if p.flags & 4 else "", hl + run, c.clen, c.ulen, 0))
        run += c.clen
    d = {"flags": p.flags, "fhtype": p.htype, "fdsize": zckref.HASH_SIZES[p.htype], "chtype": p.ctype,
         "cdsize": zckref.HASH_SIZES[p.ctype], "lead": p.lead_len, "hlen": hl, "detached": int(p.detached),
         "count": len(p.chunks), "hdigest": p.hdigest.hex(), "ddigest": p.data_digest.hex(),
         "dlen": run, "tlen": hl + run, "chunks": ch, "iter": len(p.chunks), "streams": bool(p.flags & 1)}
    return d, None


def sizeclass(v):
    if v >= 1 << 64:
        return ">=2^64"
    if v >= 1 << 63:
        return ">=2^63"
    if v >= 1 << 32:
        return ">=2^32"
    if v >= 1 << 31:
        return ">=2^31"
    return "small"


def compare(exp, m):
    """list of (field, expected, got, size class)"""
    bad = []
    for k in ("flags", "fhtype", "fdsize", "chtype", "cdsize", "lead", "hlen", "detached", "count", "iter"):
        if str(exp[k]) != m.get(k):
            bad.append((k, exp[k], m.get(k), sizeclass(exp[k])))
    for k in ("hdigest", "ddigest"):
        if exp[k] != m.get(k):
            bad.append((k, exp[k], m.get(k), "digest"))
    if exp["iter"] >= 1:
        for k in ("dlen", "tlen"):
            if str(exp[k]) != m.get(k):
                bad.append((k, exp[k], m.get(k), sizeclass(exp[k])))
    got = [] if m.get("chunks", "-") == "-" else m["chunks"].split(",")
    for e, g in zip(exp["chunks"], got):
        gp = g.split(":")
        names = ("number", "digest", "udigest", "start", "csize", "size", "valid")
        for nm, ev, gv in zip(names, e, gp):
            if str(ev) != gv:
                bad.append(("chunk." + nm, ev, gv, sizeclass(ev) if isinstance(ev, int) else "digest"))
                break
    return bad


def work(part):
    files = [build(s) for s in part]
    job = "\n".join("file %s" % f.hex() for f in files) + "\n"
    cs = core.drv("meta", job)
    res = {"n": len(part), "opened": 0, "malformed": 0, "nontrivial": 0, "viol": [], "outcomes": set()}
    for spec, f, c in zip(part, files, cs):
        exp, reason = expected(f)
        m = c.first("M")
        big = any(cl >= 1 << 31 or ul >= 1 << 31 for cl, ul in spec[5]) or spec[6] is not None
        if big:
            res["nontrivial"] += 1
        if not c.done or m is None:
            res["viol"].append(({"check": "C13", "predicate": "crash-on-open-or-getters"}, "crash: %s" % (c.status(),), spec))
            continue
        opened = m["open"] == "1"
        res["outcomes"].add((opened, exp is not None))
        if opened:
            res["opened"] += 1
        if exp is None:
            res["malformed"] += 1
            if opened:
                cls = reason.split(":")[0]
                cls = "chunk count != entries" if cls.startswith("chunk count") else cls
                res["viol"].append(({"check": "C13", "predicate": "malformed-header-opens", "reason": cls,
                                     "field": spec[6][0] if spec[6] else "sizes"},
                                    "header the reference calls malformed (%s) opens; reported count=%s iter=%s" % (
                                        reason, m.get("count"), m.get("iter")), spec))
            continue
        if exp["streams"]:
            continue  # the library documents streams as unsupported: no claim
        if not opened:
            continue
        for field, ev, gv, cls in compare(exp, m)[:2]:
            res["viol"].append(({"check": "C13", "predicate": "getter-differs-from-file", "field": field, "class": cls},
                                "%s reported as %s, the file says %s" % (field, gv, ev), spec))
    return res


def stability(ctx):
    """second part: what the getters report does not change while the context is used - every getter dumped right after
    the open and again after a history of validations, chunk requests, matching and a full read (the per-chunk validity
    flag excepted), on library-written files"""
    import universe
    from universe import Cfg
    D = universe.DELTA_DICT
    specs_ = [("abc", Cfg(0, b"", 0, 3, 1)), ("aab", Cfg(2, b"", 0, 3, 1)), ("abca", Cfg(2, D, 0, 1, 1)), ("abb", Cfg(2, D, 1, 2, 0)), ("dcd", Cfg(0, D, 1, 1, 1))]
    files = universe.lib_files(specs_, ctx.seed)
    single = ["V", "D", "F", "Q", "C0", "C1", "C2", "S1", "S3", "r5", "X", "M", "G-1", "G1"]
    hists = ["-"] + single + ["%s,%s" % (a, b) for a in single for b in single]
    bad = []
    for (w, c), f in zip(specs_, files):
        job = ["sched 7", "peer %s" % f.hex(), "disk %s" % f.hex()] + ["hist %s" % h for h in hists]
        cs = core.drv("scan", "\n".join(job) + "\n", timeout=3000)
        for h, cse in zip(hists, cs):
            s = cse.first("S")
            ctx.states += 1; ctx.evaluations += 1; ctx.transitions += h.count(",") + 2
            if not cse.done or s is None:
                ctx.violation({"check": "C13", "predicate": "crash-in-history"}, "%s:%s history %s: %s" % (w, c.name(), h, cse.status()), {"stability": True, "file": f.hex(), "hist": h})
            elif s.get("metasame") == "0":
                ctx.violation({"check": "C13", "predicate": "reported-metadata-changes-while-the-context-is-used", "first_op": h.split(",")[0][0]},
                              "%s:%s: the getters report something else after history %s and a full read than right after the open" % (w, c.name(), h),
                              {"stability": True, "file": f.hex(), "hist": h})
    ctx.bounds["stability"] = "5 library-written files x all histories of length <= 2 over %s, then a full read" % single


def alloc_part(ctx):
    """third part (allocator seam): the open repeated with each single allocation answered with NULL - an open that still
    succeeds must report exactly what the healthy open reports (a field silently left empty is a wrong report)"""
    import universe
    from universe import Cfg
    D = universe.DELTA_DICT
    specs_ = [("abc", Cfg(0, b"", 0, 3, 1)), ("aab", Cfg(2, b"", 0, 3, 1)), ("abca", Cfg(2, D, 0, 1, 1)), ("abb", Cfg(2, D, 1, 2, 0)), ("dcd", Cfg(0, D, 1, 1, 0))]
    files = universe.lib_files(specs_, ctx.seed)
    files += [universe.detach(files[2]), universe.detach(files[0])]
    names = ["%s:%s" % (w, c.name()) for w, c in specs_] + ["abca:detached", "abc:detached"]
    cs = core.drv("meta", "allocfail 1\n" + "\n".join("file %s" % f.hex() for f in files) + "\n")
    crashed = 0
    tot = 0
    for nm, f, c in zip(names, files, cs):
        a = c.first("A")
        if not c.done or a is None:
            crashed += 1        # a crash under an allocation failure is outside what C13 claims: counted, not judged
            continue
        n = int(a["allocs"]) + 1
        tot += n
        crashed += int(a.get("other", "0"))
        ctx.outcomes.add(("alloc", a["opened"] != "0"))
        ctx.states += n; ctx.evaluations += n; ctx.transitions += n
        if a["differ"] != "-":
            ctx.violation({"check": "C13", "predicate": "report-differs-under-allocation-failure"},
                          "%s: opens while allocation #%s of the open returns NULL, and the getters report something else than on a healthy open" % (nm, a["differ"]),
                          {"alloc": True, "file": f.hex()})
    ctx.bounds["allocation_failures"] = "%d files x every single allocation of zck_init_read failing (%d opens)" % (len(files), tot)
    ctx.extra["allocation_failure_part"] = {"opens": tot, "cases_not_judged_because_the_open_crashed": crashed}


# ---- the zck_read_header tool --------------------------------------------------------------------------------------
HASH_NAMES = {0: "SHA-1", 1: "SHA-256", 2: "SHA-512", 3: "SHA-512/128"}
TOOL_FLAGS = ("-c", "-q", "-f", "-v")


def tool_files(ctx):
    """small files of every tiny configuration (library- and reference-written, full and detached), headers with optional
    elements, a file with a damaged chunk (for -f), and sealed headers the tool must refuse"""
    import universe
    from universe import Cfg
    out = []
    cfgs = universe.small_cfgs() + [Cfg(2, universe.DELTA_DICT, 1, 3, 3), Cfg(0, universe.DELTA_DICT, 1, 1, 2), Cfg(0, b"", 0, 0, 3)]
    words = ["abc", "aab", ""] if ctx.deep else ["abc", ""]
    specs = [(w, c) for c in cfgs for w in words]
    for (w, c), lf in zip(specs, universe.lib_files(specs, ctx.seed)):
        rf = universe.ref_file(w, c, ctx.seed)
        out.append(("lib:%s:%s" % (w, c.name()), lf))
        out.append(("ref:%s:%s" % (w, c.name()), rf))
        out.append(("ref-detached:%s:%s" % (w, c.name()), universe.detach(rf)))
        if w == "abc":
            p = zckref.parse(rf)
            off, ln = zckref.extents(p)[2]
            x = bytearray(rf); x[off] ^= 0x10
            out.append(("ref-damaged-chunk2:%s:%s" % (w, c.name()), bytes(x)))
    for fl, oe in ((2, [(1, b"xyz")]), (6, [(0, b""), (7, b"q")])):
        f, h, body = zckref.build_file(universe.word_pieces("ab", ctx.seed), comp=0, htype=1, ctype=3, flags=fl & 4)
        h.flags = fl; h.optelems = oe
        out.append(("ref-optelems:flags=%d" % fl, h.build() + body))
    return out


def parse_tool_output(text):
    """-> (info dict, rows, table header seen, trailer lines); rows: list of tuples of the whitespace-separated fields"""
    info, rows, flags, hdr, other = {}, [], [], None, []
    for ln in text.split("\n"):
        if not ln.strip():
            continue
        if ln.startswith("    Has "):
            flags.append(ln.strip())
        elif ": " in ln and not ln.startswith(" "):
            k, v = ln.split(": ", 1)
            info[k] = v.strip()
        elif ln.strip().startswith("Chunk Checksum"):
            hdr = ln
        elif ln.split()[0].isdigit():
            rows.append(ln.split())
        else:
            other.append(ln.strip())
    info["_flags"] = flags
    return info, rows, hdr, other


def tool_expect(exp, p, f):
    """what the tool's lines must say, from the reference parse"""
    fl = []
    if exp["flags"] & 1: fl.append("Has streams")
    if exp["flags"] & 2: fl.append("Has optional header elements")
    if exp["flags"] & 4: fl.append("Has uncompressed checksums")
    info = {"Overall checksum type": HASH_NAMES[exp["fhtype"]], "Header size": str(exp["hlen"]), "Header checksum": exp["hdigest"],
            "Data size": str(exp["dlen"]), "Data checksum": exp["ddigest"], "Chunk count": str(exp["count"]),
            "Chunk checksum type": HASH_NAMES[exp["chtype"]]}
    if exp["chunks"][0][4] or exp["chunks"][0][5]:
        info["Dictionary"] = exp["chunks"][0][1]
    rows = []
    for (i, dg, udg, start, cs, sz, _v) in exp["chunks"]:
        rows.append([str(i), dg] + ([udg] if exp["flags"] & 4 else []) + [str(start), str(cs), str(sz)])
    return info, fl, rows


def tool_work(part):
    job = ["chunk 16", "timeout 20000"]
    meta = []
    for name, f in part:
        job += ["clear", "file f.zck %s" % (f.hex() or "-")]
        for k in range(1 << len(TOOL_FLAGS)):
            args = [TOOL_FLAGS[i] for i in range(len(TOOL_FLAGS)) if k >> i & 1] + ["f.zck"]
            job.append("case tool=zck_read_header args=%s" % ",".join(a.encode().hex() for a in args))
            meta.append((name, f, args))
    cs = core.drv("tool", "\n".join(job) + "\n", timeout=3000, env_extra={"VF_BLOB_MAX": "1000000"})
    res = {"n": 0, "viol": [], "outcomes": set(), "tables": 0}
    tables = {}
    for c, (name, f, args) in zip(cs, meta):
        res["n"] += 1
        case = {"tool": True, "name": name, "file": f.hex(), "args": args}
        l = c.first("L")
        if not c.done or l is None or l["sig"] != "0":
            res["viol"].append(({"check": "C13", "predicate": "zck_read_header-crashes", "args": " ".join(args[:-1])},
                                "%s: zck_read_header %s: %s" % (name, " ".join(args), c.status()), case))
            continue
        exp, reason = expected(f)
        text = core.unhex(l["stdout"]).decode("latin1")
        rc = int(l["exit"])
        res["outcomes"].add((rc, exp is not None, "-q" in args, "-c" in args))
        if exp is None or exp["streams"]:
            continue
        p = zckref.parse(f)
        damaged = name.startswith("ref-damaged")
        if rc != 0 and not ("-f" in args and damaged):
            res["viol"].append(({"check": "C13", "predicate": "zck_read_header-refuses-valid-file", "args": " ".join(args[:-1])},
                                "%s: zck_read_header %s exits %d" % (name, " ".join(args), rc), case))
            continue
        info, rows, hdr, other = parse_tool_output(text)
        einfo, eflags, erows = tool_expect(exp, p, f)
        bad = None
        if "-q" not in args:
            for k, v in einfo.items():
                if info.get(k) != v:
                    bad = ("field", "%s: tool says %r, the file says %r" % (k, info.get(k), v))
                    break
            if not bad and info["_flags"] != eflags:
                bad = ("flags", "flags: tool says %s, the file says %s" % (info["_flags"], eflags))
            if not bad and ("Dictionary" in einfo) != ("Dictionary" in info):
                bad = ("dictionary", "dictionary line: %s" % info.get("Dictionary"))
        if not bad and "-c" in args:
            res["tables"] += 1
            got = [r[:len(er)] for r, er in zip(rows, erows)]
            if len(rows) != len(erows):
                bad = ("rows", "%d chunk rows, the file has %d chunks" % (len(rows), len(erows)))
            elif got != erows:
                k = next(i for i in range(len(erows)) if got[i] != erows[i])
                bad = ("row", "chunk row %d: tool says %s, the file says %s" % (k, rows[k], erows[k]))
            elif "-f" in args and not p.detached:
                vm = zckref.valid_map(p, f)
                marks = [r[len(er):] for r, er in zip(rows, erows)]
                want = [["+"] if v == 1 else ["!"] for v in vm]
                if p.flags & 4 == 0 and all(v == 1 for v in vm) and zckref.digest(p.htype, f[p.header_len:p.header_len + exp["dlen"]]) != p.data_digest:
                    want = [["!"]] * len(vm)
                if marks != want:
                    bad = ("validity", "validity marks %s, reference %s" % (marks, want))
            tables.setdefault((name, "-f" in args), {})["-q" in args, "-v" in args] = rows
        elif not bad and rows:
            bad = ("rows-without-c", "chunk rows printed without -c")
        if bad:
            res["viol"].append(({"check": "C13", "predicate": "zck_read_header-differs-from-file", "what": bad[0], "args": " ".join(args[:-1])},
                                "%s: zck_read_header %s: %s" % (name, " ".join(args), bad[1]), case))
    return res


def tool_part(ctx):
    files = tool_files(ctx)
    n = 0
    for r in core.pmap(tool_work, list(core.chunks(files, 4))):
        n += r["n"]
        ctx.states += r["n"]; ctx.evaluations += r["n"]; ctx.transitions += r["n"]
        ctx.outcomes |= {("tool",) + o for o in r["outcomes"]}
        ctx.extra["tool_chunk_tables_compared"] = ctx.extra.get("tool_chunk_tables_compared", 0) + r["tables"]
        for sig, what, case in r["viol"]:
            ctx.violation(sig, what, case)
    ctx.bounds["zck_read_header"] = ("%d files (tiny configurations incl. both flags, dictionaries, all digest types; library- and reference-written, "
                                     "detached, optional elements, one damaged chunk) x every subset of {-c, -q, -f, -v}: every printed field, flag line "
                                     "and chunk row (number, checksum(s), start, stored size, size, validity mark) against the reference parser" % len(files))
    ctx.extra["tool_runs"] = n


def run(ctx):
    stability(ctx)
    alloc_part(ctx)
    tool_part(ctx)
    sp = specs(ctx)
    ctx.rule = ("case = one sealed header (field tuple, mutation, padding); distinct by construction; non-trivial = header "
                "with a size >= 2^31 or a re-sealed mutation")
    ctx.bounds.update({"headers": len(sp), "sizes": [str(b) for b in BIG], "mutations": "count, 10/11-byte ints, huge ints in every "
                  "integer field, unknown flag bits", "padding": [1, 2, 8, 9, 10]})
    parts = list(core.chunks(sp, 2000))
    for r in core.pmap(work, parts):
        ctx.states += r["n"]; ctx.evaluations += r["n"]; ctx.transitions += r["n"] + r["opened"] * 20
        ctx.nontrivial += r["nontrivial"]
        ctx.outcomes |= r["outcomes"]
        ctx.extra["opened"] = ctx.extra.get("opened", 0) + r["opened"]
        ctx.extra["reference_malformed"] = ctx.extra.get("reference_malformed", 0) + r["malformed"]
        for sig, what, spec in r["viol"]:
            ctx.violation(sig, what + "  [spec %s]" % (short(spec),), {"spec": enc(spec)})
    ctx.sample({"spec": short(sp[len(sp) // 3])})
    ctx.sample({"spec": short(sp[-5])})


def short(spec):
    ht, ct, flags, comp, oe, entries, mut, pad = spec
    return "htype=%d ctype=%d flags=%d comp=%d optelems=%s entries=%s mutation=%s pad=%d" % (
        ht, ct, flags, comp, oe, [(hex(a), hex(b)) for a, b in entries], mut, pad)


def enc(spec):
    ht, ct, flags, comp, oe, entries, mut, pad = spec
    return [ht, ct, flags, comp, None if oe is None else [list(x) for x in oe], [[str(a), str(b)] for a, b in entries],
            list(mut) if mut else None, pad]


def dec(j):
    ht, ct, flags, comp, oe, entries, mut, pad = j
    return (ht, ct, flags, comp, None if oe is None else tuple(tuple(x) for x in oe),
            tuple((int(a), int(b)) for a, b in entries), tuple(mut) if mut else None, pad)


def replay(case, quiet=True):
    if case.get("tool"):
        r = tool_work([(case["name"], bytes.fromhex(case["file"]))])
        hit = [v for v in r["viol"] if v[2]["args"] == case["args"]]
        return {"violated": bool(hit), "detail": [v[1] for v in hit][:2]}
    if case.get("alloc"):
        cs = core.drv("meta", "allocfail 1\nfile %s\n" % case["file"])
        a = cs[0].first("A")
        return {"violated": cs[0].done and a is not None and a["differ"] != "-", "detail": a}
    if case.get("stability"):
        f = bytes.fromhex(case["file"])
        cs = core.drv("scan", "sched 7\npeer %s\ndisk %s\nhist %s\n" % (f.hex(), f.hex(), case["hist"]))
        s = cs[0].first("S")
        return {"violated": (not cs[0].done) or s is None or s.get("metasame") == "0"}
    spec = dec(case["spec"])
    r = work([spec])
    if not quiet:
        print("header:", build(spec).hex())
    return {"violated": bool(r["viol"]), "detail": [v[1] for v in r["viol"]]}
