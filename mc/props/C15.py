"""C15 - a unit-decoded chunk is verified before any of its bytes are released.

Space: zstd files (with and without dictionary), three data chunks; every single-bit flip of every body byte
(thorough: all 255 substitutes); read buffer size every value 1..(largest chunk + 2) and 32768.
Second part - request histories: before the read, the same context goes through every history in {find-matching-chunks
against an intact copy, validate-checksums, find-valid-chunks, chunk-data / stored-data requests for every chunk, and
pairs of these}; mutants = every single-bit flip of the stored bytes that libzstd still decompresses (all flips in the
thorough tier), read sizes {1, 7, 32768}.  A chunk that some earlier call marked or used must still be verified.
Oracle: positions of the output stream are attributed to chunks by the reference index.  For a mutant whose damaged
chunk starts at uncompressed offset L: everything any zck_read call ever returns (also after the first error) must be a
prefix of the original content no longer than L, and the read sequence must not end in success.
"""
import core, zckref, universe
from universe import Cfg


def bases(ctx):
    specs = [("abd", Cfg(2, b"", 0, 3, 1)), ("bab", Cfg(2, universe.DELTA_DICT, 0, 3, 1))]
    if ctx.tier == "thorough":
        specs += [("cda", Cfg(2, universe.DELTA_DICT, 1, 1, 1)), ("aab", Cfg(2, b"", 0, 0, 0))]
    files = universe.lib_files(specs, ctx.seed)
    return [("lib:%s:%s" % (w, c.name()), f, b"".join(universe.word_pieces(w, ctx.seed)), c) for (w, c), f in zip(specs, files)]


def regions(p):
    """[(file lo, file hi, limit, chunk index)] for every stored chunk"""
    out = []
    ustart = 0
    for i, ((off, ln), c) in enumerate(zip(zckref.extents(p), p.chunks)):
        if ln:
            out.append((off, off + ln, 0 if i == 0 else ustart, i))
        if i > 0:
            ustart += c.ulen
    return out


def still_decompress(base, p, cfg, vals):
    """number of (pos, value) mutants of chunk bodies that libzstd still decodes (reference side, via ctypes)"""
    n = 0
    dict_ = cfg.dict or None
    for i, ((off, ln), c) in enumerate(zip(zckref.extents(p), p.chunks)):
        if not ln:
            continue
        stored = bytearray(base[off:off + ln])
        for k in range(ln):
            orig = stored[k]
            for v in vals(orig):
                stored[k] = v
                r = zckref.zstd_decompress(bytes(stored), c.ulen, dict_ if i > 0 else None)
                if r is not None:
                    n += 1
            stored[k] = orig
    return n


def work(arg):
    name, base, content, scheds, lo, hi, limit, chunk, vals = arg[:9]
    recover = arg[9] if len(arg) > 9 else 0
    after = arg[10] if len(arg) > 10 else len(content)     # offset of the first byte behind the damaged chunk
    job = "recover %d\n" % recover + "scheds %s\nbase %s\nexpect %s\nsubst %d %d vals=%s limit=%d\n" % (scheds, base.hex(), content.hex(), lo, hi, vals, limit)
    cs = core.drv("readenum", job, timeout=3000)
    res = {"n": 0, "classes": {}, "viol": []}
    for c in cs:
        k = c.first("K")
        if not c.done or k is None:
            res["viol"].append(({"check": "C15", "predicate": "crash-or-hang", "chunk": chunk_name(chunk)},
                                "reader crashed or hung on a corrupted chunk: %s" % (c.status(),),
                                {"base": base.hex(), "content": content.hex(), "pos": lo + c.idx, "limit": limit, "vals": vals, "scheds": scheds,
                                 "recover": recover, "after": after}))
            continue
        res["n"] += int(k["n"])
        for cl in "oecsSEC":
            res["classes"][cl] = res["classes"].get(cl, 0) + int(k[cl])
        for d in c.all("D"):
            if recover and d["cls"] in "EC" and salvage_ok(core.unhex(d["content"]), content, limit, after):
                continue
            if d["cls"] in "ECsS":
                pred = {"E": "bytes-of-unverified-chunk-released-before-error", "C": "bytes-of-unverified-chunk-released-error-only-at-close",
                        "s": "corrupted-chunk-read-with-success", "S": "corrupted-chunk-read-with-success"}[d["cls"]]
                res["viol"].append(({"check": "C15", "predicate": pred, "chunk": chunk_name(chunk)},
                                    "%s: byte %s := %s (chunk %d damaged, its data start at offset %d): read sizes #%s returned %s "
                                    "bytes in total; return values %s" % (name, k["pos"], d["val"], chunk, limit, d["sched"], d["len"], d["rets"]),
                                    {"base": base.hex(), "content": content.hex(), "pos": int(k["pos"]), "val": int(d["val"]), "limit": limit,
                                     "vals": vals, "scheds": scheds, "sched": int(d["sched"]), "recover": recover, "after": after}))
    return res


def salvage_ok(got, content, limit, after):
    """recover mode (the caller clears the error and reads on): an implementation may go on with the chunks behind the
    damaged one.  Accepted: a prefix of the content that ends at or before the damaged chunk, followed by bytes that are a
    contiguous piece of the content behind the damaged chunk.  Anything else contains data of the damaged chunk."""
    a = 0
    while a < len(got) and a < limit and got[a] == content[a]:
        a += 1
    for cut in range(a, -1, -1):
        rest = got[cut:]
        if not rest or rest in content[after:]:
            return True
    return False


def histories(nchunks, thorough):
    single = ["Q", "V", "F", "D"] + ["C%d" % i for i in range(nchunks)] + ["S%d" % i for i in range(nchunks)]
    out = list(single)
    pairs = [("Q", "V"), ("V", "Q"), ("Q", "F"), ("F", "Q"), ("Q", "D")] + [("Q", "C%d" % i) for i in range(nchunks)] + [("F", "C%d" % i) for i in range(nchunks)]
    if thorough:
        pairs = [(a, b) for a in single for b in single]
    out += ["%s,%s" % p for p in pairs]
    return out


def work_hist(arg):
    name, base, content, p_regions, muts, hists, sizes = arg   # muts: [(pos, val, chunk, limit)]
    res = {"n": 0, "viol": [], "outcomes": set()}
    pb = zckref.parse(base)
    for size, recover in [(s_, r_) for s_ in sizes for r_ in (0, 1)]:
        job = ["sched %d" % size, "recover %d" % recover, "peer %s" % base.hex()]
        meta = []
        for pos, val, chunk, limit in muts:
            if isinstance(pos, bytes):
                m = pos            # whole-file mutant (digest twin)
            else:
                m = bytearray(base); m[pos] = val
            job.append("disk %s" % bytes(m).hex())
            for h in hists:
                job.append("hist %s" % h)
                meta.append((pos, val, chunk, limit, h))
        cs = core.drv("scan", "\n".join(job) + "\n", timeout=3000)
        for c, (pos, val, chunk, limit, h) in zip(cs, meta):
            res["n"] += 1
            s = c.first("S")
            case = {"hist": h, "base": base.hex(), "content": content.hex(), "pos": pos if not isinstance(pos, bytes) else "file:" + pos.hex(), "val": val,
                    "limit": limit, "size": size, "chunk": chunk, "name": name, "recover": recover}
            if isinstance(pos, bytes):
                pos = -1
            if not c.done or s is None:
                res["viol"].append(({"check": "C15", "predicate": "crash-or-hang", "history": h.split(",")[0][0]}, "%s byte %d := %d history %s: %s" % (name, pos, val, h, c.status()), case))
                continue
            if s["open"] != "1":
                continue
            got = core.unhex(s["content"])
            ok_read = s["last"] == "0" and s["ferr"] == "0" and s["rclose"] == "1"
            res["outcomes"].add((h.split(",")[0][0], ok_read))
            bad = None
            after0 = limit + pb.chunks[chunk].ulen if chunk > 0 else 0
            if ok_read and any(x[0] in "CS" for x in h.split(",")) and (got in content[after0:] or got in content[:limit]):
                pass      # positioned behind the damaged chunk by a chunk request and read on to the end: nothing of it released
            elif ok_read and len(got) <= limit and got == content[:len(got)]:
                # the sequence ended before the damaged chunk was needed (a chunk request moved the context to the end of
                # the data; files with the uncompressed-source flag have no data digest to fail at close): C15 makes no claim
                pass
            elif ok_read:
                bad = "corrupted-chunk-read-with-success"
            elif len(got) > limit or got != content[:len(got)]:
                after = limit + pb.chunks[chunk].ulen if chunk > 0 else 0
                # a chunk request in the history leaves the stream positioned behind that chunk: the sequential read then
                # delivers a contiguous piece of the content in front of or behind the damaged chunk - none of its bytes
                repositioned = any(x[0] in "CS" for x in h.split(",")) and (got in content[after:] or got in content[:limit])
                if not repositioned and not (recover and salvage_ok(got, content, limit, after)):
                    bad = "bytes-of-unverified-chunk-released-before-error"
            if bad:
                res["viol"].append(({"check": "C15", "predicate": bad, "chunk": chunk_name(chunk), "history": "+".join(x[0] for x in h.split(","))},
                                    "%s: byte %d := %d (chunk %d damaged, its data start at offset %d), history %s then reads of %d bytes: %d bytes returned, last=%s close=%s" % (
                                        name, pos, val, chunk, limit, h, size, len(got), s["last"], s["rclose"]), case))
    return res


def chunk_name(i):
    return "dictionary" if i == 0 else "data"


def run(ctx):
    thorough = ctx.tier == "thorough"
    bs = bases(ctx)
    jobs = []
    total_decomp = 0
    for name, base, content, cfg in bs:
        p = zckref.parse(base)
        cmax = max(c.ulen for c in p.chunks[1:])
        sizes = list(range(1, cmax + 3)) + [32768]
        if thorough:
            jobs_sched = [(";".join(str(s) for s in sizes), "bits"), (";".join(str(s) for s in sorted({1, cmax - 1, cmax, cmax + 1, 32768})), "all")]
        else:
            jobs_sched = [(";".join(str(s) for s in sizes), "bits")]
        for scheds, vals in jobs_sched:
            for lo, hi, limit, chunk in regions(p):
                after = limit + p.chunks[chunk].ulen if chunk > 0 else 0
                for a in range(lo, hi, 4):
                    for recover in (0, 1):
                        jobs.append((name, base, content, scheds, a, min(hi, a + 4), limit, chunk, vals, recover, after))
        total_decomp += still_decompress(base, p, cfg, lambda o: [o ^ (1 << b) for b in range(8)])
    ctx.bounds = {"bases": [b[0] for b in bs], "mutants": "every single-bit flip of every body byte" + (" + all 255 substitutes" if thorough else ""),
                  "read_sizes": "every size 1..largest chunk+2, and 32768"}
    ctx.rule = ("case = (body mutant, read size); non-trivial (distinct_nontrivial) = single-bit mutants that libzstd still "
                "decompresses (decided by the reference through ctypes), i.e. corruptions only the digest can catch")
    ctx.nontrivial = total_decomp
    # second part: call histories before the read
    hjobs = []
    for name, base, content, cfg in bs:
        p = zckref.parse(base)
        dict_ = cfg.dict or None
        muts = []
        for (lo, hi, limit, chunk) in regions(p):
            stored = bytearray(base[lo:hi])
            ulen = p.chunks[chunk].ulen
            for k in range(hi - lo):
                for b in range(8):
                    v = stored[k] ^ (1 << b)
                    st2 = bytes(stored[:k]) + bytes([v]) + bytes(stored[k + 1:])
                    if thorough or zckref.zstd_decompress(st2, ulen, dict_ if chunk > 0 else None) is not None:
                        muts.append((lo + k, v, chunk, limit))
        hs = histories(len(p.chunks), thorough)
        ctx.extra.setdefault("history_part", {})[name] = {"mutants": len(muts), "histories": len(hs)}
        for ch in core.chunks(muts, 6 if thorough else 12):
            hjobs.append((name, base, content, None, ch, hs, (1, 7, 32768)))
    # digest twins (value-dependent shape): the damaged chunk's stored bytes are replaced by other bytes of the same length that
    # decompress to the same size and whose digest shares its first byte - 0x00 - with the index digest
    tw = [Cfg(2, b"", 0, 3, 1), Cfg(2, universe.DELTA_DICT, 0, 1, 1), Cfg(2, b"", 1, 2, 1)] + ([Cfg(2, b"", 0, 0, 0), Cfg(2, universe.DELTA_DICT, 1, 1, 0)] if thorough else [])
    for cfg in tw:
        for at in (0, 1, 2):
            good, mut, content, ci, limit, Q = universe.twin_file(cfg, ctx.seed, at=at)
            hs = ["-"] + histories(len(zckref.parse(good).chunks), thorough)
            hjobs.append(("twin:%s@%d" % (cfg.name(), at), good, content, None, [(mut, 0, ci, limit)], hs, (1, 7, 32768)))
    ctx.bounds["digest_twins"] = "%d configurations x 3 positions: a chunk replaced by a same-length twin whose digest also begins with 0x00" % len(tw)
    # scale-dependent shape: zstd chunks whose uncompressed size exceeds one and two 32 KiB blocks (incompressible content, so a
    # flipped literal byte still decompresses to the declared size); read sizes below, at and far above the block size, with and
    # without the caller clearing the error - nothing of the damaged chunk may ever come out, its tail included
    bigz, bpcs = universe.big_file(Cfg(2, b"", 0, 3, 1), ctx.seed, sizes=(100, 40000, 70000, 50))
    pbz = zckref.parse(bigz)
    bcontent = b"".join(bpcs)
    for (lo, hi, limit, chunk) in regions(pbz):
        if hi - lo < 30000:
            continue
        after = limit + pbz.chunks[chunk].ulen
        for q in (lo + 100, lo + (hi - lo) // 2, hi - 50):
            for recover in (0, 1):
                jobs.append(("ref:big:zstd", bigz, bcontent, "4096;32768;40000;1048576", q, q + 1, limit, chunk, "bits", recover, after))
    ctx.bounds["big_chunks"] = "zstd file with chunks of 40000 and 70000 incompressible bytes: a flipped byte near the start, middle and end of each, read sizes 4096 / 32768 / 40000 / 1 MiB, plain and recover mode"
    for r in core.pmap(work_hist, hjobs):
        ctx.states += r["n"]; ctx.evaluations += r["n"]; ctx.transitions += r["n"] * 3
        ctx.outcomes |= {str(o) for o in r["outcomes"]}
        for sig, what, case in r["viol"]:
            ctx.violation(sig, what, case)
    for r in core.pmap(work, jobs):
        ctx.states += r["n"]; ctx.evaluations += r["n"]; ctx.transitions += r["n"] * 4
        for k, v in r["classes"].items():
            ctx.extra.setdefault("classes", {})[k] = ctx.extra.get("classes", {}).get(k, 0) + v
            if v:
                ctx.outcomes.add(k)
        for sig, what, case in r["viol"]:
            ctx.violation(sig, what, case)
    ctx.sample({"base": bs[0][0], "mutant": "bit 0 of the first byte of data chunk 2", "read_size": 7,
                "expect": "at most the first chunk's bytes, then an error"})
    if total_decomp < 2:
        ctx.note("warning: fewer than 2 mutants still decompress")


def replay(case, quiet=True):
    base = bytes.fromhex(case["base"]); content = bytes.fromhex(case["content"])
    if "hist" in case:
        pos = case["pos"]
        if isinstance(pos, str) and pos.startswith("file:"):
            pos = bytes.fromhex(pos[5:])
        r = work_hist((case["name"], base, content, None, [(pos, case["val"], case["chunk"], case["limit"])], [case["hist"]], (case["size"],)))
        return {"violated": bool(r["viol"]), "detail": [v[1] for v in r["viol"]][:2]}
    r = work(("replay", base, content, case["scheds"], case["pos"], case["pos"] + 1, case["limit"], 1, case["vals"],
              case.get("recover", 0), case.get("after", len(content))))
    if "val" in case:
        hit = [v for v in r["viol"] if v[2].get("val") == case["val"] and v[2].get("sched") == case["sched"]]
        return {"violated": bool(hit), "detail": [h[1] for h in hit][:2]}
    return {"violated": bool(r["viol"]), "detail": [v[1] for v in r["viol"]][:2]}
