"""C04 - the delta update reconstructs the new file exactly, fetching only what is missing.

Space: the documented procedure (the loop of src/zck_dl.c: header -> find valid -> copy from A -> {missing range ->
request -> callbacks}* -> truncate -> validate) run as a scenario over the public API with a reference range server
answering in-process.  B in words <= 3 and A in words <= 3 u {absent} (all pairs: edits, unrelated, equal, duplicates)
x compression/dictionary {none, zstd, zstd+dict in both, zstd with different dictionaries} x range limit {1, 2, 3,
unlimited} x response spelling x initial target {absent, A's file, B's file, B with each one chunk zeroed, garbage of
B's length, longer than B, B truncated in the last chunk}.
Oracle: terminates within (#chunks + 5) requests with success; target bytes = B; and the byte ranges requested from the
body are pairwise disjoint and their union is exactly the stored extents of the chunks of B that were not valid in the
initial target (reference hashing) and have no chunk with equal digest, stored size and size in A.
"""
import itertools
import core, zckref, universe, httpsim
from universe import Cfg

D = universe.DELTA_DICT
D2 = bytes(reversed(D))


def inits(a, b, pb):
    ext = zckref.extents(pb)
    out = [("absent", b""), ("B", b)]
    if a is not None:
        out.append(("A", a))
    for i, (off, ln) in enumerate(ext):
        if ln > 0:
            x = bytearray(b); x[off:off + ln] = bytes(ln)
            out.append(("B-zero%d" % i, bytes(x)))
    out.append(("garbage", core.prng_bytes(len(b), 7)))
    out.append(("B+50", b + core.prng_bytes(50, 9)))
    if ext and ext[-1][1] > 1:
        out.append(("B-cut-last", b[:len(b) - ext[-1][1] // 2]))
    out.append(("header-only", b[:pb.header_len]))
    return out


def judge(a, b, pa, pb, init, u):
    """u: the U record.  returns (predicate, text) or None"""
    if u["status"] == "10":
        return "does-not-terminate", "more than #chunks+5 requests: %s" % u["reqs"]
    if u["status"] != "0":
        return "update-fails", "status %s (%s) requests %s" % (u["status"], core.unhex(u.get("uerr", "-")).decode("latin1"), u["reqs"])
    t = core.unhex(u["tfile"])
    if t != b:
        return "target-differs-from-new-file", "%d bytes vs %d" % (len(t), len(b))
    ext = zckref.extents(pb)
    # validity of the initial target once B's header is in place
    hl = pb.header_len
    t0 = bytearray(init)
    if len(t0) < hl:
        t0 += bytes(hl - len(t0))
    t0[:hl] = b[:hl]
    vm = zckref.valid_map(pb, bytes(t0))
    triples = {(c.digest, c.clen, c.ulen) for c in pa.chunks} if pa else set()
    need = set()
    for i, ((off, ln), c) in enumerate(zip(ext, pb.chunks)):
        if ln > 0 and vm[i] != 1 and (c.digest, c.clen, c.ulen) not in triples:
            need.update(range(off, off + ln))
    got = []
    reqs = [] if u["reqs"] == "-" else u["reqs"].split(";")
    for r in reqs:
        kind, rng = r.split(":", 1)
        for (x, y) in httpsim.parse_range_string(rng):
            if kind == "h":
                if y >= max(hl, 200) + 0 and x >= hl:
                    return "header-request-reaches-into-body", rng
            else:
                got.append((x, y))
    seen = set()
    for (x, y) in got:
        s = set(range(x, y + 1))
        if s & seen:
            return "bytes-requested-twice", "%d-%d" % (x, y)
        seen |= s
    if seen != need:
        extra, lack = seen - need, need - seen
        def chunks_of(bs):
            return sorted({i for i, (off, ln) in enumerate(ext) for q in bs if off <= q < off + ln})
        if extra:
            if min(extra) < hl:
                return "header-bytes-requested-as-body", "%d" % min(extra)
            return "fetched-bytes-that-were-present", "chunks %s requested although valid in the target or available in the old file" % chunks_of(extra)
        return "needed-bytes-not-requested", "chunks %s" % chunks_of(lack)
    return None


def work(arg):
    aname, a, bname, b, cases = arg     # cases: (init name, init bytes, limit, style)
    pa = zckref.parse(a) if a is not None else None
    pb = zckref.parse(b)
    job = ["a %s" % (a.hex() if a is not None else "-"), "b %s" % b.hex()]
    for iname, init, limit, style in cases:
        job.append("case init=%s limit=%d style=%d" % (init.hex() or "-", limit, style))
    cs = core.drv("update", "\n".join(job) + "\n", timeout=3000)
    res = {"n": 0, "tr": 0, "partial": 0, "viol": [], "outcomes": set()}
    nreal = sum(1 for c in pb.chunks if c.clen > 0)
    for c, (iname, init, limit, style) in zip(cs, cases):
        res["n"] += 1
        u = c.first("U")
        case = {"aname": aname, "a": a.hex() if a is not None else None, "bname": bname, "b": b.hex(), "iname": iname, "init": init.hex(),
                "limit": limit, "style": style}
        klass = {"check": "C04", "init": iname.rstrip("0123456789"), "source": "none" if a is None else ("same" if a == b else "other"),
                 "limit": "unlimited" if limit < 0 else "limited"}
        what0 = "old=%s new=%s initial-target=%s limit=%d style=%d" % (aname, bname, iname, limit, style)
        if not c.done or u is None:
            res["viol"].append((dict(klass, predicate="crash-or-hang"), "%s: %s" % (what0, c.status()), case))
            continue
        reqs = [] if u["reqs"] == "-" else [r for r in u["reqs"].split(";") if r[0] == "c"]
        res["tr"] += len(reqs) + 2
        fetched = sum(len(httpsim.parse_range_string(r[2:])) for r in reqs)
        if 0 < fetched and u["scan"].count("+") + u["copy"].count("+") > 1:
            res["partial"] += 1
        res["outcomes"].add((u["status"], min(len(reqs), 3)))
        v = judge(a, b, pa, pb, init, u)
        if v:
            res["viol"].append((dict(klass, predicate=v[0]), "%s: %s" % (what0, v[1]), case))
    return res


def run(ctx):
    thorough = ctx.tier == "thorough"
    alpha = "abc" if thorough else "ab"
    wl = [""] + list(core.words(3, alpha, 1))
    combos = [("none", Cfg(0, b"", 0, 3, 1), Cfg(0, b"", 0, 3, 1)), ("zstd", Cfg(2, b"", 0, 3, 1), Cfg(2, b"", 0, 3, 1))]
    if thorough:
        combos += [("zstd+dict", Cfg(2, D, 0, 3, 1), Cfg(2, D, 0, 3, 1)), ("zstd-dicts-differ", Cfg(2, D, 0, 3, 1), Cfg(2, D2, 0, 3, 1)),
                   ("none->zstd", Cfg(0, b"", 0, 3, 1), Cfg(2, b"", 0, 3, 1)), ("sha256+flag", Cfg(2, b"", 1, 1, 1), Cfg(2, b"", 1, 1, 1))]
    else:
        combos += [("zstd-dicts-differ", Cfg(2, D, 0, 3, 1), Cfg(2, D2, 0, 3, 1))]
    limits = [1, 2, 3, -1] if thorough else [1, -1]
    cfgs = {}
    for _, ca, cb in combos:
        cfgs[ca.name()] = ca; cfgs[cb.name()] = cb
    specs = [(w, c) for c in cfgs.values() for w in wl]
    files = dict(zip([(w, c.name()) for w, c in specs], universe.lib_files(specs, ctx.seed)))
    jobs = []
    npairs = 0
    for cname, ca, cb in combos:
        small = cname not in ("none", "zstd")
        for bw in wl:
            if small and len(bw) == 3 and bw not in ("aab", "abc", "abb", "aba"):
                continue
            b = files[(bw, cb.name())]
            pb = zckref.parse(b)
            for aw in [None] + wl:
                if small and aw is not None and len(aw) == 3 and aw not in ("aab", "abc", "bab"):
                    continue
                a = files[(aw, ca.name())] if aw is not None else None
                npairs += 1
                cases = []
                for iname, init in inits(a, b, pb):
                    for lim in limits:
                        for style in ((0, 1) if lim in (-1, 2) and iname in ("absent", "garbage") else (0,)):
                            cases.append((iname, init, lim, style))
                jobs.append(("%s:%s" % (aw, ca.name()) if aw is not None else "absent", a, "%s:%s" % (bw, cb.name()), b, cases))
    ctx.bounds = {"words": "<= 3 letters over %s (and the empty content)" % alpha, "pairs": npairs, "configurations": [c[0] for c in combos],
                  "limits": limits, "initial_targets": "absent, A, B, B with each chunk zeroed, garbage, B+50 bytes, B cut in the last chunk, header only"}
    ctx.rule = "case = (old file, new file, limit, spelling, initial target); non-trivial = run that reused some chunks and fetched others"
    for r in core.pmap(work, jobs):
        ctx.states += r["n"]; ctx.evaluations += r["n"]; ctx.transitions += r["tr"]; ctx.nontrivial += r["partial"]
        ctx.outcomes |= r["outcomes"]
        for sig, what, case in r["viol"]:
            ctx.violation(sig, what, case)
    ctx.sample({"old": "ab", "new": "abc", "initial_target": "absent", "limit": -1, "expect": "one body request for exactly chunk c's extent; target == new file"})


def replay(case, quiet=True):
    a = bytes.fromhex(case["a"]) if case["a"] else None
    r = work((case["aname"], a, case["bname"], bytes.fromhex(case["b"]), [(case["iname"], bytes.fromhex(case["init"]), case["limit"], case["style"])]))
    return {"violated": bool(r["viol"]), "detail": [v[1] for v in r["viol"]]}
