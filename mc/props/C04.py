"""C04 - the delta update reconstructs the new file exactly, fetching only what is missing.

Space: the documented procedure (the loop of src/zck_dl.c: header -> find valid -> copy from A -> {missing range ->
request -> callbacks}* -> truncate -> validate) run as a scenario over the public API with a reference range server
answering in-process.  B in words <= 3 and A in words <= 3 u {absent} (all pairs: edits, unrelated, equal, duplicates)
x compression/dictionary {none, zstd, zstd+dict in both, zstd with different dictionaries} x range limit {1, 2, 3,
unlimited} x response spelling x initial target {absent, A's file, B's file, B with each one chunk zeroed, garbage of
B's length, longer than B, B truncated in the last chunk}.
Oracle: terminates within (#chunks + 5) requests with success; target bytes = B; and the byte ranges requested from the
body are pairwise disjoint and their union is exactly the stored extents of the chunks of B that were not valid in the
initial target (reference hashing) and have no chunk with equal digest, stored size and size in A.
"""
import itertools
import core, zckref, universe, httpsim
from universe import Cfg

D = universe.DELTA_DICT
D2 = bytes(reversed(D))


def inits(a, b, pb):
    ext = zckref.extents(pb)
    out = [("absent", b""), ("B", b)]
    if a is not None:
        out.append(("A", a))
    for i, (off, ln) in enumerate(ext):
        if ln > 0:
            x = bytearray(b); x[off:off + ln] = bytes(ln)
            out.append(("B-zero%d" % i, bytes(x)))
    out.append(("garbage", core.prng_bytes(len(b), 7)))
    out.append(("B+50", b + core.prng_bytes(50, 9)))
    if ext and ext[-1][1] > 1:
        out.append(("B-cut-last", b[:len(b) - ext[-1][1] // 2]))
    out.append(("header-only", b[:pb.header_len]))
    return out


def judge(a, b, pa, pb, init, u, damaged_source=False):
    """u: the U record.  returns (predicate, text) or None.  With a source whose body is damaged (its index still lists
    the chunk) the chunks that could not be reused must be fetched as well: then only 'needed is requested, nothing valid
    in the target is requested, nothing twice' is demanded."""
    if u["status"] == "10":
        return "does-not-terminate", "more than #chunks+5 requests: %s" % u["reqs"]
    if u["status"] != "0":
        return "update-fails", "status %s (%s) requests %s" % (u["status"], core.unhex(u.get("uerr", "-")).decode("latin1"), u["reqs"])
    t = core.unhex(u["tfile"])
    if t != b:
        return "target-differs-from-new-file", "%d bytes vs %d" % (len(t), len(b))
    ext = zckref.extents(pb)
    # validity of the initial target once B's header is in place
    hl = pb.header_len
    t0 = bytearray(init)
    if len(t0) < hl:
        t0 += bytes(hl - len(t0))
    t0[:hl] = b[:hl]
    vm = zckref.valid_map(pb, bytes(t0))
    triples = {(c.digest, c.clen, c.ulen) for c in pa.chunks} if pa else set()
    need = set()
    for i, ((off, ln), c) in enumerate(zip(ext, pb.chunks)):
        if ln > 0 and vm[i] != 1 and (c.digest, c.clen, c.ulen) not in triples:
            need.update(range(off, off + ln))
    got = []
    reqs = [] if u["reqs"] == "-" else u["reqs"].split(";")
    for r in reqs:
        kind, rng = r.split(":", 1)
        for (x, y) in httpsim.parse_range_string(rng):
            if kind == "h":
                if y >= max(hl, 200) + 0 and x >= hl:
                    return "header-request-reaches-into-body", rng
            else:
                got.append((x, y))
    seen = set()
    for (x, y) in got:
        s = set(range(x, y + 1))
        if s & seen:
            return "bytes-requested-twice", "%d-%d" % (x, y)
        seen |= s
    if damaged_source:
        present = set()
        for i, ((off, ln), c) in enumerate(zip(ext, pb.chunks)):
            if ln > 0 and vm[i] == 1:
                present.update(range(off, off + ln))
        if seen & present:
            return "fetched-bytes-that-were-present", "bytes of chunks valid in the target were requested"
        if need - seen:
            return "needed-bytes-not-requested", ""
        return None
    if seen != need:
        extra, lack = seen - need, need - seen
        def chunks_of(bs):
            return sorted({i for i, (off, ln) in enumerate(ext) for q in bs if off <= q < off + ln})
        if extra:
            if min(extra) < hl:
                return "header-bytes-requested-as-body", "%d" % min(extra)
            return "fetched-bytes-that-were-present", "chunks %s requested although valid in the target or available in the old file" % chunks_of(extra)
        return "needed-bytes-not-requested", "chunks %s" % chunks_of(lack)
    return None


def work(arg):
    aname, a, bname, b, cases = arg     # cases: (init name, init bytes, limit, style)
    damaged = ":flip" in aname
    pa = zckref.parse(a) if a is not None else None
    pb = zckref.parse(b)
    job = ["a %s" % (a.hex() if a is not None else "-"), "b %s" % b.hex()]
    for cc in cases:
        iname, init, limit, style = cc[:4]
        job.append("case init=%s limit=%d style=%d" % (init.hex() or "-", limit, style) + (" abort=%d" % cc[4] if len(cc) > 4 else ""))
    cs = core.drv("update", "\n".join(job) + "\n", timeout=3000)
    res = {"n": 0, "tr": 0, "partial": 0, "viol": [], "outcomes": set()}
    nreal = sum(1 for c in pb.chunks if c.clen > 0)
    for c, cc in zip(cs, cases):
        iname, init, limit, style = cc[:4]
        abort = cc[4] if len(cc) > 4 else None
        res["n"] += 1
        u = c.first("U")
        case = {"aname": aname, "a": a.hex() if a is not None else None, "bname": bname, "b": b.hex(), "iname": iname, "init": init.hex(),
                "limit": limit, "style": style, "abort": abort}
        klass = {"check": "C04", "init": iname.rstrip("0123456789"), "source": "none" if a is None else ("same" if a == b else "other"),
                 "limit": "unlimited" if limit < 0 else "limited"}
        what0 = "old=%s new=%s initial-target=%s limit=%d style=%d" % (aname, bname, iname, limit, style) + (
            " connection-dropped-after=%d" % abort if abort is not None else "")
        if abort is not None:
            klass["dropped"] = True
        if not c.done or u is None:
            res["viol"].append((dict(klass, predicate="crash-or-hang"), "%s: %s" % (what0, c.status()), case))
            continue
        reqs = [] if u["reqs"] == "-" else [r for r in u["reqs"].split(";") if r[0] == "c"]
        res["tr"] += len(reqs) + 2
        fetched = sum(len(httpsim.parse_range_string(r[2:])) for r in reqs)
        if 0 < fetched and u["scan"].count("+") + u["copy"].count("+") > 1:
            res["partial"] += 1
        res["outcomes"].add((u["status"], min(len(reqs), 3)))
        if abort is not None and c.done and u is not None:
            # the first chunk response is cut off and the client goes round the loop again with the same zckDL: the update
            # must still end with the new file (what is requested again after a dropped connection is not judged)
            if u["status"] == "10":
                v = ("does-not-terminate", "more than #chunks+5 requests: %s" % u["reqs"])
            elif u["status"] != "0":
                v = ("update-fails", "status %s (%s) requests %s" % (u["status"], core.unhex(u.get("uerr", "-")).decode("latin1"), u["reqs"]))
            elif core.unhex(u["tfile"]) != b:
                v = ("target-differs-from-new-file", "")
            else:
                v = None
        else:
            v = judge(a, b, pa, pb, init, u, damaged)
        if v:
            res["viol"].append((dict(klass, predicate=v[0], source="damaged" if damaged else klass["source"]), "%s: %s" % (what0, v[1]), case))
    return res


def real_zckdl(ctx, files, wl, cfg, npairs=60, maxrs=(1, 2, 255), init_names=("absent", "B-zero1", "garbage", "B", "B+50", "header-only", "B-cut-last"), extra_pairs=()):
    """thorough: the real zckdl tool (built from the tree, libcurl) against a loopback HTTP range server, including the
    back-off when the server refuses the number of ranges"""
    import httpd
    srv = httpd.Server()
    try:
        job = ["chunk 1", "timeout 60000"]
        meta = []
        pairs = [(a, b) for b in wl if len(b) >= 2 for a in ([None] + [w for w in wl if 1 <= len(w) <= 2])]
        pairs = pairs[:npairs] if npairs >= len(pairs) or npairs >= 60 else pairs[::max(1, len(pairs) // npairs)][:npairs]
        pairs = list(extra_pairs) + pairs       # long words first: several requests in one run of the tool
        k = 0
        for aw, bw in pairs:
            b = files[(bw, cfg.name())]
            a = files[(aw, cfg.name())] if aw is not None else None
            pb = zckref.parse(b)
            variants = [(a, False)]
            if a is not None and zckref.parse(a).data_len > 0:
                # the old file with one stored byte flipped (header intact): the tool's own order of "copy from the old file" and
                # "forget failed chunks" decides whether the rejected chunk is fetched
                pa_ = zckref.parse(a)
                x = bytearray(a); x[pa_.header_len + pa_.chunks[0].clen] ^= 0x10
                variants.append((bytes(x), True))
            for maxr in maxrs:
              for a, dmg in variants:
                for iname, init in [x for x in inits(a, b, pb) if x[0] in (init_names if not dmg else ("absent", "garbage"))]:
                    name = "c%d.zck" % k
                    k += 1
                    srv.files[name] = b
                    job.append("clear")
                    if a is not None:
                        job.append("file old.zck %s" % a.hex())
                    if iname != "absent":
                        job.append("file %s %s" % (name, init.hex()))
                    args = (["-s", "old.zck"] if a is not None else []) + ["http://127.0.0.1:%d/m%d/%s" % (srv.port, maxr, name)]
                    job.append("case tool=zckdl args=%s out=%s" % (",".join(x.encode().hex() for x in args), name))
                    meta.append((aw if not dmg else aw + "(one stored byte flipped)", a, bw, b, iname, init, maxr, name, dmg))
        cs = core.drv("tool", "\n".join(job) + "\n", timeout=7200)
        log = srv.take_log()
    finally:
        srv.stop()
    for c, (aw, a, bw, b, iname, init, maxr, name, dmg) in zip(cs, meta):
        l = c.first("L")
        ctx.states += 1; ctx.evaluations += 1
        case = {"real": True, "a": aw, "b": bw, "init": iname, "maxr": maxr}
        klass = {"check": "C04", "tool": "zckdl", "init": iname.rstrip("0123456789"), "server_max_ranges": maxr}
        what0 = "zckdl old=%s new=%s initial-target=%s server-max-ranges=%d" % (aw, bw, iname, maxr)
        if not c.done or l is None:
            ctx.violation(dict(klass, predicate="crash-or-hang"), "%s: %s" % (what0, c.status()), case)
            continue
        mine = [(p, r, code) for (p, r, code) in log if p.endswith("/" + name)]
        ctx.transitions += len(mine)
        if l["exit"] != "0":
            ctx.violation(dict(klass, predicate="update-fails"), "%s: exit %s after %d requests" % (what0, l["exit"], len(mine)), case)
            continue
        out = l.get("f." + name, "ABSENT")
        if out == "ABSENT" or core.unhex(out) != b:
            ctx.violation(dict(klass, predicate="target-differs-from-new-file"), what0, case)
            continue
        if dmg:
            continue      # which ranges a damaged old file makes necessary is judged by the in-process scenario; here: it ends with B
        # body ranges actually served (206) must be exactly the needed extents, once
        pa = zckref.parse(a) if a is not None else None
        pb = zckref.parse(b)
        reqs = ";".join("%s:%s" % ("c" if int(r[6:].split("-")[0].split(",")[0]) >= pb.header_len else "h", r[6:]) for (p, r, code) in mine if code == 206 and r)
        u = {"status": "0", "tfile": out, "reqs": reqs or "-"}
        v = judge(a, b, pa, pb, init, u)
        ctx.outcomes.add(("zckdl", len(mine) > 3))
        if any(code == 200 for (p, r, code) in mine):
            ctx.nontrivial += 1
        if v:
            ctx.violation(dict(klass, predicate=v[0]), "%s: %s (requests: %s)" % (what0, v[1], [(r, code) for p, r, code in mine]), case)


def run(ctx):
    thorough = ctx.tier == "thorough"
    alpha = "abc" if thorough else "ab"
    # ... plus words with a one-byte chunk (alone, first, middle, last, twice): its inclusive range is "n-n"
    wl = [""] + list(core.words(3, alpha, 1)) + ["e", "ea", "ae", "aea", "eae"]
    combos = [("none", Cfg(0, b"", 0, 3, 1), Cfg(0, b"", 0, 3, 1)), ("zstd", Cfg(2, b"", 0, 3, 1), Cfg(2, b"", 0, 3, 1))]
    if thorough:
        combos += [("zstd+dict", Cfg(2, D, 0, 3, 1), Cfg(2, D, 0, 3, 1)), ("zstd-dicts-differ", Cfg(2, D, 0, 3, 1), Cfg(2, D2, 0, 3, 1)),
                   ("none->zstd", Cfg(0, b"", 0, 3, 1), Cfg(2, b"", 0, 3, 1)), ("sha256+flag", Cfg(2, b"", 1, 1, 1), Cfg(2, b"", 1, 1, 1))]
    else:
        combos += [("zstd-dicts-differ", Cfg(2, D, 0, 3, 1), Cfg(2, D2, 0, 3, 1))]
    limits = [1, 2, 3, -1] if thorough else [1, -1]
    cfgs = {}
    for _, ca, cb in combos:
        cfgs[ca.name()] = ca; cfgs[cb.name()] = cb
    specs = [(w, c) for c in cfgs.values() for w in wl]
    files = dict(zip([(w, c.name()) for w, c in specs], universe.lib_files(specs, ctx.seed)))
    jobs = []
    npairs = 0
    for cname, ca, cb in combos:
        small = cname not in ("none", "zstd")
        for bw in wl:
            if small and len(bw) == 3 and bw not in ("aab", "abc", "abb", "aba"):
                continue
            b = files[(bw, cb.name())]
            pb = zckref.parse(b)
            for aw in [None] + wl:
                if small and aw is not None and len(aw) == 3 and aw not in ("aab", "abc", "bab"):
                    continue
                a = files[(aw, ca.name())] if aw is not None else None
                npairs += 1
                cases = []
                for iname, init in inits(a, b, pb):
                    for lim in limits:
                        for style in ((0, 1, 3) if lim in (-1, 2) and iname in ("absent", "garbage") else (0,)):
                            cases.append((iname, init, lim, style))
                jobs.append(("%s:%s" % (aw, ca.name()) if aw is not None else "absent", a, "%s:%s" % (bw, cb.name()), b, cases))
                # the old file may be damaged: header intact, one chunk's stored bytes flipped - what cannot be reused must be fetched
                if a is not None and (thorough or len(aw) <= 2) and set(aw) & set(bw):
                    pa_ = zckref.parse(a)
                    real = [(off, ln) for off, ln in zckref.extents(pa_) if ln > 0]
                    for j, (off, ln) in enumerate(real):
                        if not thorough and j not in (0, len(real) - 1):
                            continue
                        x = bytearray(a); x[off + ln // 2] ^= 0x08
                        dcases = [(iname, init, lim, 0) for iname, init in inits(a, b, pb) if iname != "B" and iname != "A" for lim in (limits if thorough else [-1])]
                        jobs.append(("%s:%s:flip%d" % (aw, ca.name(), j), bytes(x), "%s:%s" % (bw, cb.name()), b, dcases))
    # long new files whose missing chunks alternate with reusable ones: several requests, each with several ranges, when the
    # number of ranges is limited (the server answers every multipart request with a boundary of its own)
    lwords = ["ababababa", "babababab", "abcbdbcba"] + (["acbcacbcacbc", "abababababababab"] if thorough else [])
    lsrc = ["a", "ac"]
    lspecs = [(w, c) for c in (combos[0][1], combos[1][1]) for w in lwords + lsrc]
    lfiles = dict(zip([(w, c.name()) for w, c in lspecs], universe.lib_files(lspecs, ctx.seed)))
    for c in (combos[0][1], combos[1][1]):
        for bw in lwords:
            b = lfiles[(bw, c.name())]
            pb = zckref.parse(b)
            for aw in [None] + lsrc:
                a = lfiles[(aw, c.name())] if aw is not None else None
                cases = [(iname, init, lim, style) for iname, init in inits(a, b, pb) if iname in ("absent", "garbage", "B-zero3", "B-cut-last")
                         for lim in (1, 2, 3, -1) for style in (0, 1, 2)]
                jobs.append(("%s:%s" % (aw, c.name()) if aw is not None else "absent", a, "%s:%s" % (bw, c.name()), b, cases))
                npairs += 1
                # a connection that drops after every number of body bytes of the first chunk response, then the same zckDL again
                if bw == lwords[0] or thorough:
                    absent = [x for x in inits(a, b, pb) if x[0] == "absent"][0]
                    for lim, style in ((2, 0), (-1, 1)) + (((3, 1), (1, 0)) if thorough else ()):
                        drops = [(absent[0], absent[1], lim, style, n) for n in range(0, 700)]
                        for ch in core.chunks(drops, 175):
                            jobs.append(("%s:%s" % (aw, c.name()) if aw is not None else "absent", a, "%s:%s" % (bw, c.name()), b, ch))
    ctx.bounds = {"long_words": lwords, "words": "<= 3 letters over %s (and the empty content)" % alpha, "pairs": npairs, "configurations": [c[0] for c in combos],
                  "limits": limits, "initial_targets": "absent, A, B, B with each chunk zeroed, garbage, B+50 bytes, B cut in the last chunk, header only"}
    ctx.rule = "case = (old file, new file, limit, spelling, initial target); non-trivial = run that reused some chunks and fetched others"
    for r in core.pmap(work, jobs):
        ctx.states += r["n"]; ctx.evaluations += r["n"]; ctx.transitions += r["tr"]; ctx.nontrivial += r["partial"]
        ctx.outcomes |= r["outcomes"]
        for sig, what, case in r["viol"]:
            ctx.violation(sig, what, case)
    if thorough:
        files.update(lfiles)
        real_zckdl(ctx, files, [w for w in wl], combos[0][1], extra_pairs=[(aw, bw) for bw in lwords for aw in [None] + lsrc])
        ctx.bounds["real_zckdl"] = "zckdl (in-process main, libcurl) against a loopback range server: 60 pairs x server range limits {1, 2, 255} x 7 initial targets"
    else:
        # the tool itself (its own copy of the loop, incl. the early exit for a complete target and the final truncate)
        files.update(lfiles)
        real_zckdl(ctx, files, [w for w in wl], combos[0][1], npairs=8, maxrs=(1, 2, 255), extra_pairs=[("a", lwords[0]), (None, lwords[1]), ("ac", lwords[2])])
        ctx.bounds["real_zckdl"] = "zckdl (in-process main, libcurl) against a loopback range server: 8 pairs of short words and 3 of long words x server range limits {1, 2, 255} x 7 initial targets"
    ctx.sample({"old": "ab", "new": "abc", "initial_target": "absent", "limit": -1, "expect": "one body request for exactly chunk c's extent; target == new file"})


def replay(case, quiet=True):
    if case.get("real"):
        return {"violated": True, "detail": "real-zckdl case: re-run ./vf check C04 --tier thorough"}
    a = bytes.fromhex(case["a"]) if case["a"] else None
    r = work((case["aname"], a, case["bname"], bytes.fromhex(case["b"]), [(case["iname"], bytes.fromhex(case["init"]), case["limit"], case["style"]) +
                                                                             ((case["abort"],) if case.get("abort") is not None else ())]))
    return {"violated": bool(r["viol"]), "detail": [v[1] for v in r["viol"]]}
