"""C02 - no silent corruption: a successful read implies verified, correct content.

Space: base files (words of length 3 x configurations, library- and reference-written, plus a medium automatically
chunked file in the thorough tier).  Mutants, exhaustively: every single-bit flip at every byte; all 255 substitutes at
every body byte; every truncation length; extensions by 1-3 bytes; a byte inserted / deleted at every position;
re-sealed structural mutants (declared sizes, digests, flags, compression type, chunk count replaced by boundary
values; chunks swapped / duplicated / dropped with and without the matching index edit).  x read schedules.
Oracle (an implication): open, read-to-0 and close all succeed  =>  returned bytes = the base content or = the
reference decoding of the mutant with every checksum matching.
"""
PROMOTE = True   # quick runs the former thorough bound (seconds); thorough goes deeper where a deeper bound is defined (ctx.deep)
import itertools
import core, zckref, universe
from universe import Cfg
from zckref import Chunk


def structural(pieces, cfg, thorough):
    """re-sealed structural mutants of the reference-written file: list of (name, bytes)"""
    f, h, body = zckref.build_file(pieces, comp=cfg.comp, htype=cfg.fhash, ctype=cfg.chash, flags=cfg.flags(),
                                   dict_=cfg.dict, level=9)
    out = []
    n = len(h.chunks)

    def clone():
        h2 = zckref.Header(h.htype, h.ctype, h.flags, h.comp, [Chunk(c.digest, c.clen, c.ulen, c.udigest) for c in h.chunks],
                           h.data_digest)
        return h2

    def emit(name, h2, b2, reseal_data=False):
        if reseal_data and not (h2.flags & 4):
            h2.data_digest = zckref.digest(h2.htype, b2)
        out.append((name, h2.build() + b2))

    offs = []
    o = 0
    for c in h.chunks:
        offs.append(o); o += c.clen
    for i in range(n):
        c = h.chunks[i]
        for v in sorted({0, 1, c.clen - 1, c.clen + 1, c.clen * 2, 1 << 31} - {c.clen}):
            if v >= 0:
                h2 = clone(); h2.chunks[i].clen = v; emit("clen[%d]=%d" % (i, v), h2, body)
        for v in sorted({0, 1, c.ulen - 1, c.ulen + 1, c.ulen * 2, c.ulen + 7, 1 << 31} - {c.ulen}):
            if v >= 0:
                h2 = clone(); h2.chunks[i].ulen = v; emit("ulen[%d]=%d" % (i, v), h2, body)
        for j in range(n):
            if j != i and h.chunks[j].digest != c.digest:
                h2 = clone(); h2.chunks[i].digest = h.chunks[j].digest; emit("digest[%d]=digest[%d]" % (i, j), h2, body)
        h2 = clone(); h2.chunks[i].digest = bytes(len(c.digest)); emit("digest[%d]=0" % i, h2, body)
        h2 = clone(); h2.chunks[i].digest = bytes([c.digest[0] ^ 1]) + c.digest[1:]; emit("digest[%d]^1" % i, h2, body)
        if h.flags & 4:
            h2 = clone(); h2.chunks[i].udigest = bytes([c.udigest[0] ^ 1]) + c.udigest[1:]; emit("udigest[%d]^1" % i, h2, body)
    # an entry dressed up as an empty one in one size column only (the all-zero digest is what an empty entry carries): a reader
    # that takes its "nothing to verify" shortcut on the wrong column skips the check of bytes it then hands out
    for i in range(n):
        c = h.chunks[i]
        if c.clen == 0:
            continue
        z = bytes(len(c.digest))
        h2 = clone(); h2.chunks[i].ulen = 0; h2.chunks[i].digest = z; emit("ulen[%d]=0,digest[%d]=0" % (i, i), h2, body)
        h2 = clone(); h2.chunks[i].ulen = 0; h2.chunks[i].digest = z; h2.chunks[i].udigest = z; emit("ulen[%d]=0,digests[%d]=0" % (i, i), h2, body)
        h2 = clone(); h2.chunks[i].clen = 0; h2.chunks[i].digest = z; emit("clen[%d]=0,digest[%d]=0" % (i, i), h2, body)
        h2 = clone(); h2.chunks[i].clen = 0; h2.chunks[i].ulen = 0; h2.chunks[i].digest = z; emit("lens[%d]=0,digest[%d]=0" % (i, i), h2, body)
    h2 = clone(); h2.data_digest = bytes(len(h.data_digest)); emit("datadigest=0", h2, body)
    h2 = clone(); h2.data_digest = bytes([h.data_digest[0] ^ 0x80]) + h.data_digest[1:]; emit("datadigest^80", h2, body)
    h2 = clone(); h2.flags ^= 4
    if h2.flags & 4:
        for c in h2.chunks:
            c.udigest = c.udigest or bytes(len(c.digest))
    emit("flags^4", h2, body)
    h2 = clone(); h2.comp = 2 if h.comp == 0 else 0; emit("comp-swapped", h2, body)
    for d in (-1, 1):
        h2 = clone(); h2.raw["count"] = zckref.enc_ci(max(0, n + d)); emit("count%+d" % d, h2, body)
    # chunk-level edits: body only / index only / both (with and without re-sealing the data digest)
    segs = [body[offs[i]:offs[i] + h.chunks[i].clen] for i in range(n)]
    for i, j in itertools.combinations(range(1, n), 2):
        if segs[i] == segs[j]:
            continue
        order = list(range(n)); order[i], order[j] = order[j], order[i]
        b2 = b"".join(segs[k] for k in order)
        emit("swap-body[%d,%d]" % (i, j), clone(), b2)
        emit("swap-body[%d,%d]+datadigest" % (i, j), clone(), b2, True)
        h2 = clone(); h2.chunks = [h2.chunks[k] for k in order]; emit("swap-index[%d,%d]" % (i, j), h2, body)
        h2 = clone(); h2.chunks = [h2.chunks[k] for k in order]; emit("swap-both[%d,%d]" % (i, j), h2, b2, True)
        h2 = clone(); h2.chunks = [h2.chunks[k] for k in order]; emit("swap-both[%d,%d]-stale-datadigest" % (i, j), h2, b2)
    for i in range(1, n):
        keep = [k for k in range(n) if k != i]
        b2 = b"".join(segs[k] for k in keep)
        emit("drop-body[%d]" % i, clone(), b2)
        h2 = clone(); h2.chunks = [h2.chunks[k] for k in keep]; emit("drop-index[%d]" % i, h2, body)
        h2 = clone(); h2.chunks = [h2.chunks[k] for k in keep]; emit("drop-both[%d]" % i, h2, b2, True)
        h2 = clone(); h2.chunks = [h2.chunks[k] for k in keep]; emit("drop-both[%d]-stale-datadigest" % i, h2, b2)
        dup = list(range(n)); dup.insert(i, i)
        b3 = b"".join(segs[k] for k in dup)
        emit("dup-body[%d]" % i, clone(), b3)
        h2 = clone(); h2.chunks = [h2.chunks[k] for k in dup]; emit("dup-index[%d]" % i, h2, body)
        h2 = clone(); h2.chunks = [h2.chunks[k] for k in dup]; emit("dup-both[%d]" % i, h2, b3, True)
    # the 5-byte identifier is not covered by the header checksum: every mix of the letters of the two valid identifiers
    # (the full-file identifier on a detached header and vice versa included), on the full file and on its detached twin
    twin = universe.detach(f)
    for src, tag in ((f, "full"), (twin, "detached-twin")):
        for a in (b"C", b"H"):
            for b2 in (b"K", b"R"):
                m = b"\0Z" + a + b2 + b"1" + src[5:]
                if m != src:
                    out.append(("magic=Z%s%s1(%s)" % (a.decode(), b2.decode(), tag), m))
    # ... and the detached-header identifier on every structural mutant that keeps its body (the identifier is outside the
    # header checksum, so this costs an attacker nothing): second deviation, always paired
    for name, m in list(out):
        if not name.startswith("magic=") and m[:5] == zckref.MAGIC_FILE:
            out.append((name + "+magic=ZHR1", zckref.MAGIC_HDR + m[5:]))
    if thorough:
        # all pairs of the single-field deviations (sizes and digests), re-sealed
        fields = []
        for i in range(n):
            c = h.chunks[i]
            fields += [("clen", i, v) for v in (0, c.clen - 1, c.clen + 1) if v >= 0 and v != c.clen]
            fields += [("ulen", i, v) for v in (0, c.ulen - 1, c.ulen + 1) if v >= 0 and v != c.ulen]
        for a, b in itertools.combinations(fields, 2):
            if a[:2] == b[:2]:
                continue
            h2 = clone()
            for fld, i, v in (a, b):
                setattr(h2.chunks[i], fld, v)
            emit("%s[%d]=%d,%s[%d]=%d" % (a + b), h2, body)
    return f, out


def scheds_for(p, quick):
    c = max((ch.ulen for ch in p.chunks[1:]), default=8) or 8
    if quick:
        return "1;7;32768"
    return ";".join(str(x) for x in sorted({1, 2, 3, 7, max(1, c - 1), c, c + 1, 32768})) + ";1,5,2"


ANY = "<unspecified by the format: no claim>"


def refdecode(b):
    try:
        return zckref.decode(b)[0]
    except zckref.Invalid:
        if b[:5] == zckref.MAGIC_HDR:
            # the format does not say what a detached-header identifier followed by a body means; a reader that treats it
            # as the full file it otherwise is delivers exactly what the checksums cover - accepted, nothing else is
            try:
                return zckref.decode(zckref.MAGIC_FILE + b[5:])[0]
            except zckref.Invalid:
                return None
            except zckref.Unspecified:
                return ANY
        return None
    except zckref.Unspecified:
        return ANY
    except Exception as e:  # decoder must not be able to fail in other ways
        raise core.HarnessError("reference decoder raised %r" % (e,))


def work(arg):
    """one job: (base name, base bytes, content, scheds, list of job lines, list of descriptors)"""
    name, base, content, scheds, lines, descs = arg
    job = ["scheds %s" % scheds, "base %s" % base.hex(), "expect %s" % (content.hex() or "-")] + lines
    cs = core.drv("readenum", "\n".join(job) + "\n", timeout=3000)
    res = {"name": name, "n": 0, "classes": {}, "viol": [], "opened_past_gate": 0, "successes": 0}
    idx = 0
    flat = []
    for d in descs:
        if d[0] in ("subst", "trunc"):
            for p in range(d[1], d[2]):
                flat.append((d[0], p) + tuple(d[3:]))
        else:
            flat.append(d)
    for c, d in zip(cs, flat):
        k = c.first("K")
        if not c.done or k is None:
            res["viol"].append(({"check": "C02", "predicate": "crash-or-hang", "mutation": d[0]},
                                "reader crashed or hung on mutant %s of %s: %s" % (d[:2], name, c.status()), mutant_of(base, d, None)))
            continue
        n = int(k["n"])
        res["n"] += n
        for cl in "oecsSEC":
            res["classes"][cl] = res["classes"].get(cl, 0) + int(k[cl])
        res["opened_past_gate"] += n - int(k["o"])
        res["successes"] += int(k["s"]) + int(k["S"])
        for dl in c.all("D"):
            if dl["cls"] != "S":
                continue
            got = core.unhex(dl["content"]) if not dl["content"].startswith("#") else dl["content"]
            mut = mutant_bytes(base, d, int(dl["val"]))
            ref = refdecode(mut)
            if ref is ANY or (ref is not None and ref == got):
                continue  # no claim / a different, valid file
            if isinstance(got, str) and ref is not None:
                import hashlib
                if got == "#%s:%d" % (hashlib.sha256(ref).hexdigest(), len(ref)):
                    continue
            res["viol"].append(({"check": "C02", "predicate": "success-with-wrong-content", "mutation": d[0] if d[0] != "file" else d[2].split("[")[0].split("=")[0],
                                 "reference": "invalid" if ref is None else "other-content",
                                 "cfg": name.split(":")[-1]},
                                "%s mutant %s (val %s, schedule %s): open, read to the end and close all succeed, %d bytes returned, "
                                "but the reference decoder says %s" % (name, d[2] if d[0] == "file" else d[:2], dl["val"], dl["sched"], int(dl["len"]),
                                                                     "the file is invalid" if ref is None else "the content is different"),
                                {"file": mut.hex(), "base_content": content.hex(), "scheds": scheds, "sched": int(dl["sched"])}))
    return res


def mutant_bytes(base, d, val):
    if d[0] == "subst":
        m = bytearray(base); m[d[1]] = val; return bytes(m)
    if d[0] == "trunc":
        return base[:d[1]]
    if d[0] == "edit":
        return base[:d[1]] + d[3] + base[d[1] + d[2]:]
    if d[0] == "file":
        return d[1]
    raise ValueError(d)


def mutant_of(base, d, val):
    if d[0] == "subst":
        return {"rerun": True, "base": base.hex(), "desc": ["subst", d[1], d[2] if len(d) > 2 else "all"]}
    return {"file": mutant_bytes(base, d, val).hex() if d[0] != "subst" else None, "rerun": True}


def base_files(ctx):
    quick = ctx.tier == "quick"
    seed = ctx.seed
    if quick:
        specs = [("abc", Cfg(0, b"", 0, 3, 1)), ("aab", Cfg(2, b"", 0, 3, 1)), ("abb", Cfg(2, universe.DELTA_DICT, 1, 1, 1)),
                 ("dcd", Cfg(0, universe.DELTA_DICT, 1, 2, 0))]
    else:
        cfgs = [Cfg(0, b"", 0, 3, 1), Cfg(2, b"", 0, 3, 1), Cfg(2, universe.DELTA_DICT, 0, 3, 1), Cfg(0, universe.DELTA_DICT, 0, 0, 0),
                Cfg(2, b"", 1, 1, 1), Cfg(0, b"", 1, 2, 1), Cfg(2, universe.DELTA_DICT, 1, 2, 0), Cfg(2, b"", 0, 2, 0),
                Cfg(0, b"", 0, 1, 0), Cfg(2, universe.DELTA_DICT, 0, 0, 1), Cfg(0, universe.DELTA_DICT, 1, 1, 1), Cfg(2, b"", 0, 0, 3)]
        ws = ["abc", "aab", "abb", "dcd", "aaa", "cab"]
        specs = [(ws[i % len(ws)], c) for i, c in enumerate(cfgs)]
        if ctx.deep:
            # thorough tier: every word under every configuration, and two four-letter words
            specs = [(w, c) for c in cfgs for w in ws] + [("abca", cfgs[1]), ("dddd", cfgs[2]), ("abab", cfgs[4])]
    libf = universe.lib_files(specs, seed)
    out = []
    for (w, c), lf in zip(specs, libf):
        pcs = universe.word_pieces(w, seed)
        content = b"".join(pcs)
        out.append(("lib:%s:%s" % (w, c.name()), lf, content, pcs, c))
    return out


def jobs_for(name, base, content, pcs, cfg, thorough):
    p = zckref.parse(base)
    scheds = scheds_for(p, not thorough)
    n = len(base)
    jobs = []
    # raw mutants, split into jobs of bounded size
    step = 40
    for lo in range(0, n, step):
        hi = min(n, lo + step)
        jobs.append((name, base, content, scheds, ["subst %d %d vals=bits" % (lo, hi)], [("subst", lo, hi, "bits")]))
    body0 = p.header_len
    for lo in range(body0, n, 8):
        hi = min(n, lo + 8)
        jobs.append((name, base, content, scheds, ["subst %d %d vals=all" % (lo, hi)], [("subst", lo, hi, "all")]))
    for lo in range(0, n, 100):
        hi = min(n, lo + 100)
        jobs.append((name, base, content, scheds, ["trunc %d %d" % (lo, hi)], [("trunc", lo, hi)]))
    lines, descs = [], []
    for ext in (b"\0", b"\0\0", b"abc", b"\x80"):
        lines.append("edit %d 0 %s" % (n, ext.hex())); descs.append(("edit", n, 0, ext))
    for pos in range(n):
        for ins in (b"\0", base[pos:pos + 1]):
            lines.append("edit %d 0 %s" % (pos, ins.hex())); descs.append(("edit", pos, 0, ins))
        lines.append("edit %d 1 -" % pos); descs.append(("edit", pos, 1, b""))
    for ch in range(0, len(lines), 150):
        jobs.append((name, base, content, scheds, lines[ch:ch + 150], descs[ch:ch + 150]))
    ref, smut = structural(pcs, cfg, thorough)
    lines, descs = [], []
    for nm, b in smut:
        lines.append("file %s" % b.hex()); descs.append(("file", b, nm))
    lines.append("file %s" % ref.hex()); descs.append(("file", ref, "reference-written"))
    for ch in range(0, len(lines), 150):
        jobs.append((name + ":structural", ref, content, scheds, lines[ch:ch + 150], descs[ch:ch + 150]))
    return jobs, len(smut)


def run(ctx):
    thorough = ctx.tier == "thorough"
    bases = base_files(ctx)
    jobs = []
    nstruct = 0
    for name, base, content, pcs, cfg in bases:
        j, ns = jobs_for(name, base, content, pcs, cfg, thorough)
        jobs += j
        nstruct += ns
    # value-dependent shapes (digests containing 0x00, where a str*-style comparison stops): a chunk replaced by its digest twin
    # in files without a data digest, and a chunk swap whose stale and actual data digests both begin with 0x00
    vd = []
    for cfg in [Cfg(0, b"", 1, 1, 1), Cfg(2, b"", 1, 2, 1), Cfg(2, universe.DELTA_DICT, 1, 1, 0)]:
        for at in (0, 1, 2):
            good, mut, content, ci, limit, Q = universe.twin_file(cfg, ctx.seed, at=at)
            vd.append(("ref:twin:%s" % cfg.name(), good, content, "twin-chunk@%d" % at, mut))
    for cfg in [Cfg(0, b"", 0, 3, 1), Cfg(2, b"", 0, 3, 0)]:
        good, mut, content = universe.zero_swap_file(cfg, ctx.seed)
        vd.append(("ref:zero-swap:%s" % cfg.name(), good, content, "swap-both-stale-zero-datadigest", mut))
    for name, good, content, nm, mut in vd:
        jobs.append((name, good, content, scheds_for(zckref.parse(good), not thorough), ["file %s" % mut.hex()], [("file", mut, nm)]))
    nstruct += len(vd)
    ctx.bounds = {"base_files": [b[0] for b in bases], "bit_flips": "every bit of every byte", "substitutions": "all 255 at every body byte",
                  "truncations": "every length", "indels": "every position", "structural_mutants": nstruct,
                  "schedules": scheds_for(zckref.parse(bases[0][1]), not thorough)}
    ctx.rule = ("case = (mutant, read schedule); distinct by construction; non-trivial = mutant that passed the header gate "
                "(open succeeded); successes counts the antecedent of the implication")
    for r in core.pmap(work, jobs):
        ctx.states += r["n"]; ctx.evaluations += r["n"]; ctx.transitions += r["n"] * 3
        ctx.nontrivial += r["opened_past_gate"]
        ctx.extra["antecedent_true"] = ctx.extra.get("antecedent_true", 0) + r["successes"]
        for k, v in r["classes"].items():
            ctx.extra.setdefault("classes", {})[k] = ctx.extra.get("classes", {}).get(k, 0) + v
            if v:
                ctx.outcomes.add(k)
        for sig, what, case in r["viol"]:
            ctx.violation(sig, what, case)
    ctx.sample({"base": bases[0][0], "mutant": "bit 3 of byte 120 flipped", "schedule": "7"})
    ctx.sample({"base": bases[-1][0], "mutant": "swap-both[1,2] (valid different file)", "expect": "reference decoding"})


def replay(case, quiet=True):
    if case.get("file"):
        mut = bytes.fromhex(case["file"])
        content = bytes.fromhex(case.get("base_content", ""))
        cs = core.drv("readenum", "scheds %s\ndetail 1\nexpect %s\nfile %s\n" % (case.get("scheds", "1;7;32768"), content.hex() or "-", mut.hex()))
        c = cs[0]
        if not c.done:
            return {"violated": True, "detail": c.status()}
        ref = refdecode(mut)
        for dl in c.all("D"):
            if dl["cls"] in "sS":
                got = core.unhex(dl["content"]) if not dl["content"].startswith("#") else None
                if got is not None and got != content and got != ref and ref is not ANY:
                    return {"violated": True, "detail": {"returned": got.hex(), "reference": None if ref is None else ref.hex(), "sched": dl["sched"]}}
        return {"violated": False}
    return {"violated": True, "detail": "crash case: rerun the exploration"}
