"""C11 - interrupted updates resume to the exact file; partial chunks are never trusted.

Space: the C04 update scenario with the write path of the target under the kill seam (link-time wrap of write /
ftruncate).  Crash points: every write and ftruncate the update performs on the target, and within a write EVERY byte
count 0..n - so "in the middle of a chunk", "in the middle of the header" and "between two parts of a multipart
response" are all covered byte by byte.  Explicit-state BFS: state = target bytes; successors = resume killed at each
point; every state is also resumed to completion with fresh contexts.  Depth 1 for every scenario, depth 2 (repeated
interruption) for selected scenarios; states are deduplicated on file bytes (resume uses fresh contexts, A and B are
constants of the scenario and the process dies at the kill point, so the target's bytes are the whole state).
Oracle: every resume-to-completion succeeds with target = B; right after the resume's validity scan every chunk
flagged valid has on-disk bytes hashing to its digest; the ranges requested during a resume are disjoint from the
extents of chunks that were completely and correctly on disk at the kill.
"""
import core, zckref, universe, httpsim
from universe import Cfg

D = universe.DELTA_DICT


def scenarios(ctx):
    n0, z0, zd = Cfg(0, b"", 0, 3, 1), Cfg(2, b"", 0, 3, 1), Cfg(2, D, 0, 3, 1)
    S = [  # (A word or None, B word, cfg, limit, style, piece, depth)
        (None, "ab", n0, -1, 0, 0, 2), ("ab", "abc", n0, -1, 0, 0, 2), ("b", "aab", n0, 1, 0, 0, 2),
        ("b", "abab", n0, -1, 0, 0, 1), ("b", "abab", n0, -1, 1, 7, 1), (None, "abb", z0, -1, 0, 0, 1),
        ("bc", "abcd", z0, 2, 1, 0, 1), ("a", "aa", n0, -1, 0, 0, 1), (None, "aab", zd, -1, 0, 0, 1),
        ("c", "cab", zd, 1, 0, 0, 1), (None, "", n0, -1, 0, 0, 1), ("ab", "ba", z0, -1, 0, 0, 1),
    ]
    if ctx.tier == "quick":
        S = [s[:6] + (1,) for s in S[:8]] + []
        S[0] = S[0][:6] + (2,)
    else:
        S += [("abc", "acb", n0, 3, 1, 3, 2), (None, "abcd", zd, -1, 0, 0, 2), ("d", "dad", z0, 1, 0, 1, 1),
              # updates that need several requests, each answered with multipart/byteranges under its own boundary
              ("a", "ababababa", n0, 2, 0, 0, 1), ("a", "ababababa", z0, 2, 1, 0, 1), ("ac", "abcbdbcba", n0, 3, 1, 5, 1)]
        S[3] = S[3][:6] + (2,)
    words = sorted({(w, c.name()) for a, b, c, *_ in S for w in (a, b) if w is not None})
    cfgs = {c.name(): c for _, _, c, *_ in S}
    files = dict(zip(words, universe.lib_files([(w, cfgs[cn]) for w, cn in words], ctx.seed)))
    out = []
    for a, b, c, lim, style, piece, depth in S:
        out.append({"name": "old=%s new=%s %s limit=%d style=%d piece=%d" % (a, b, c.name(), lim, style, piece),
                    "a": files[(a, c.name())] if a is not None else None, "b": files[(b, c.name())], "limit": lim, "style": style,
                    "piece": piece, "depth": depth})
    # files with the uncompressed-source flag (no whole-data digest; the scan has its own path for them), old file present at the
    # first attempt only: chunks copied from it lie complete BEHIND the chunk the kill cut, and the restart - which no longer
    # has the old file - must find them by scanning and must not ask the server for them
    nU, zU = Cfg(0, b"", 1, 3, 1), Cfg(2, b"", 1, 1, 1)
    for a, b, c, lim in ((("b", "abab", nU, -1), ("bc", "abcad", zU, 2)) if ctx.tier != "quick" else (("b", "abab", nU, -1),)):
        fa, fb = universe.lib_files([(a, c), (b, c)], ctx.seed)
        out.append({"name": "old=%s (first attempt only) new=%s %s limit=%d style=0 piece=0" % (a, b, c.name(), lim), "a": fa, "b": fb,
                    "limit": lim, "style": 0, "piece": 0, "depth": 1, "resume_without_a": True})
    # scale-dependent shape: chunks larger than one and two of the scan's 32 KiB buffers whose content repeats with a period
    # dividing the buffer size - a restart that goes on hashing after a short read finds in its buffer exactly what the file
    # would have held.  Kill points: around every 4 KiB step of every write (and both ends), not every byte.
    ramp = bytes(range(256))
    bigp = [b"\xff" * 70000, (ramp * 200)[:40000], b"tail" * 25, bytes(32768 + 4096)]
    for comp, lim, style, piece, a_pcs in ((0, -1, 0, 0, None), (0, -1, 1, 16384, [bigp[1]]), (2, 1, 0, 16384, None)):
        if ctx.tier == "quick" and comp == 2:
            continue
        pcs = bigp if comp == 0 else [core.prng_bytes(70000, 5 + ctx.seed), core.prng_bytes(40000, 6 + ctx.seed), b"tail" * 25]
        fb = zckref.build_file(pcs, comp=comp, htype=1, ctype=3, level=3)[0]
        fa = zckref.build_file(a_pcs, comp=comp, htype=1, ctype=3, level=3)[0] if a_pcs else None
        out.append({"name": "big-periodic old=%s comp=%d limit=%d style=%d piece=%d" % ("one-chunk" if fa else None, comp, lim, style, piece),
                    "a": fa, "b": fb, "limit": lim, "style": style, "piece": piece, "depth": 1, "kills": "steps"})
    return out


def run_batch(arg):
    """arg: (scenario, [(init bytes, plan or None)]) -> list of U records / status"""
    sc, items = arg
    job = ["a %s" % (sc["a"].hex() if sc["a"] is not None else "-"), "b %s" % sc["b"].hex(), "chunk 16"]
    for init, plan in items:
        job.append("case init=%s limit=%d style=%d piece=%d %s" % (init.hex() or "-", sc["limit"], sc["style"], sc["piece"],
                                                                   ("plan=%s" % plan) if plan else "trace=1"))
    cs = core.drv("update", "\n".join(job) + "\n", timeout=3000, env_extra={"VF_BLOB_MAX": "100000000"} if sc.get("kills") else None)
    return [(c.first("U"), c.status(), c.done) for c in cs]


def kill_plans(trace, mode=None):
    """every crash point of a traced run (mode "steps": within a write both ends and -1/0/+1 around every 4 KiB step)"""
    out = []
    for rec in trace.split(","):
        k, op, role, req, resv, dev = rec.split(":")
        if role != "g" or k == "-1":
            continue
        if op == "w":
            n = int(req)
            js = range(0, n + 1) if mode != "steps" or n <= 600 else sorted({j for m in list(range(0, n + 1, 4096)) + [n] for j in (m - 1, m, m + 1) if 0 <= j <= n})
            for j in js:
                out.append("%s:K:%d" % (k, j))
        elif op == "t":
            out.append("%s:K:0" % k)
    return out


def judge_resume(sc, pb, state, u):
    b = sc["b"]
    if u["status"] != "0":
        return "resume-does-not-complete", "status %s (%s) requests %s" % (u["status"], core.unhex(u.get("uerr", "-")).decode("latin1"), u["reqs"])
    if core.unhex(u["tfile"]) != b:
        return "resumed-target-differs-from-new-file", ""
    hl = pb.header_len
    t0 = bytearray(state)
    if len(t0) < hl:
        t0 += bytes(hl - len(t0))
    t0[:hl] = b[:hl]
    vm = zckref.valid_map(pb, bytes(t0))
    ext = zckref.extents(pb)
    scan = u["scan"]
    for i, fl in enumerate(scan if scan != "-" else ""):
        if fl == "+" and vm[i] != 1:
            return "partial-chunk-trusted", "chunk %d flagged valid by the restart's scan although its bytes on disk do not match" % i
    have = set()
    for i, (off, ln) in enumerate(ext):
        if vm[i] == 1 and ln > 0:
            have.update(range(off, off + ln))
    for r in ([] if u["reqs"] == "-" else u["reqs"].split(";")):
        if r[0] != "c":
            continue
        for (x, y) in httpsim.parse_range_string(r[2:]):
            hit = have & set(range(x, y + 1))
            if hit:
                i = next(i for i, (off, ln) in enumerate(ext) if off <= min(hit) < off + ln)
                return "complete-chunk-fetched-again", "chunk %d was completely and correctly on disk at the kill but %d-%d was requested" % (i, x, y)
    return None


def explore(ctx, sc):
    pb = zckref.parse(sc["b"])
    ext = zckref.extents(pb)
    seen = {b"": 0}
    frontier = [b""]
    st = {"states": 0, "trans": 0, "inner": 0, "viol": [], "outcomes": set()}
    sc_full = sc
    for depth in range(0, sc["depth"] + 1):
        if not frontier:
            break
        sc = dict(sc_full, a=None) if sc_full.get("resume_without_a") and depth >= 1 else sc_full
        # resume every new state to completion (traced)
        res = []
        for part in core.pmap(run_batch, [(sc, [(s, None) for s in ch]) for ch in core.chunks(frontier, 4 if sc.get("kills") else 40)]):
            res += part
        nxt_items = []
        for state, (u, status, done) in zip(frontier, res):
            st["states"] += 1
            st["trans"] += 1
            case = {"scenario": sc["name"], "a": sc["a"].hex() if sc["a"] is not None else None, "b": sc["b"].hex(), "limit": sc["limit"],
                    "style": sc["style"], "piece": sc["piece"], "state": state.hex(), "depth": depth}
            # where did the kill leave the file?
            cut = len(state)
            where = "empty" if cut == 0 else ("in-header" if cut < pb.header_len else
                                             ("at-chunk-edge" if any(cut in (off, off + ln) for off, ln in ext) or cut == pb.header_len else "inside-chunk"))
            klass = {"check": "C11", "kill": where, "depth": depth}
            if not done or u is None:
                st["viol"].append((dict(klass, predicate="crash-or-hang"), "%s: resume from a %d-byte target: %s" % (sc["name"], len(state), status), case))
                continue
            v = judge_resume(sc, pb, state, u)
            st["outcomes"].add((u["status"], u["scan"].count("+") if u["scan"] != "-" else -1))
            if where == "inside-chunk" or where == "in-header":
                st["inner"] += 1
            if v:
                st["viol"].append((dict(klass, predicate=v[0]), "%s: target left with %d bytes (%s) by kill at depth %d: %s" % (
                    sc["name"], len(state), where, depth, v[1]), case))
                continue
            if depth < sc["depth"]:
                for plan in kill_plans(u["trace"], sc.get("kills")):
                    nxt_items.append((state, plan))
        if depth >= sc["depth"]:
            break
        frontier = []
        flat = []
        for part in core.pmap(run_batch, [(sc, ch) for ch in core.chunks(nxt_items, 8 if sc.get("kills") else 200)]):
            flat += part
        for (u, status, done), (state, plan) in zip(flat, nxt_items):
            st["trans"] += 1
            if u is None or not done:
                st["viol"].append(({"check": "C11", "predicate": "crash-or-hang", "depth": depth}, "%s: kill plan %s: %s" % (sc["name"], plan, status),
                                   {"scenario": sc["name"], "plan": plan, "state": state.hex(), "a": sc["a"].hex() if sc["a"] is not None else None,
                                    "b": sc["b"].hex(), "limit": sc["limit"], "style": sc["style"], "piece": sc["piece"], "depth": depth, "killcase": True}))
                continue
            if u.get("killed") != "1":
                if u.get("mismatch") == "1":
                    raise core.HarnessError("kill plan %s did not apply in %s (replay diverged)" % (plan, sc["name"]))
                continue   # the plan's point was not reached: the run completed
            t = core.unhex(u["tfile"])
            if t not in seen:
                seen[t] = depth + 1
                frontier.append(t)
    return st


def run(ctx):
    scs = scenarios(ctx)
    ctx.bounds = {"scenarios": [s["name"] + " depth=%d" % s["depth"] for s in scs],
                  "crash_points": "every write/ftruncate on the target and every byte count within each write (big-periodic scenarios: "
                                  "both ends of each write and -1/0/+1 around every 4 KiB step)"}
    ctx.rule = ("state = target bytes after a kill (deduplicated); transition = one killed or resumed update execution; "
                "non-trivial = states in which the kill fell inside the header or inside a chunk")
    for sc in scs:
        if ctx.expired():
            ctx.cap("deadline reached before scenario %s" % sc["name"])
            break
        st = explore(ctx, sc)
        ctx.states += st["states"]; ctx.transitions += st["trans"]; ctx.evaluations += st["trans"]; ctx.nontrivial += st["inner"]
        ctx.outcomes |= st["outcomes"]
        for sig, what, case in st["viol"]:
            ctx.violation(sig, what, case)
    ctx.sample({"scenario": scs[1]["name"], "kill": "write #k of the range response after j of n bytes, for every k and j",
                "expect": "resume with fresh contexts ends with target == new file; no chunk that was whole on disk is requested again"})


def replay(case, quiet=True):
    sc = {"name": case["scenario"], "a": bytes.fromhex(case["a"]) if case["a"] else None, "b": bytes.fromhex(case["b"]), "limit": case["limit"],
          "style": case["style"], "piece": case["piece"], "kills": "steps" if case["scenario"].startswith("big-") else None}
    state = bytes.fromhex(case["state"])
    if case.get("killcase"):
        (u, status, done), = run_batch((sc, [(state, case["plan"])]))
        return {"violated": u is None or not done, "detail": str(status)}
    (u, status, done), = run_batch((sc, [(state, None)]))
    if not done or u is None:
        return {"violated": True, "detail": str(status)}
    v = judge_resume(sc, zckref.parse(sc["b"]), state, u)
    return {"violated": bool(v), "detail": v}
