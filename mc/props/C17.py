"""C17 - memory safety and clean failure on arbitrary server responses.

Space: header lines H (boundary parameters containing each regex metacharacter, unbalanced quotes, empty, 1000
characters, no CR, two boundary parameters, NUL and high bytes, no multipart header at all).  Bodies: a well-formed
response with <= 2 deviations from a menu (drop/duplicate CR, LF, dashes, delimiter, terminator; Content-Range missing,
inverted, zero-length, 20-digit, non-numeric, outside the request, overlapping; wrong boundary; payload longer/shorter
than declared; NUL in a part header; huge part header; trailing bytes), every truncation of the well-formed body, all
byte strings of length <= 2 as the whole body, plain bodies of every length 0..2x expected.  Fragmentations: whole,
one byte per call, every single cut, 16 KiB pieces for padded bodies.
Oracle: every callback returns (forked child under ASan+UBSan with an alarm: no sanitizer report, fatal signal or
timeout); target bytes outside the requested extents unchanged and the file does not grow; every chunk flagged valid
hashes to its digest; previously valid chunks stay valid.
"""
import itertools
import core, zckref, universe, httpsim
from universe import Cfg
from httpsim import Style

BD = "5f2a9c0e1b7d3"


def header_lines():
    ct = b"Content-Type: multipart/byteranges; boundary="
    H = [("none", []), ("plain-206", [b"HTTP/1.1 206 Partial Content\r\n", b"Content-Length: 10\r\n", b"\r\n"]),
         ("good", [ct + BD.encode() + b"\r\n"]), ("good-quoted", [ct + b'"' + BD.encode() + b'"\r\n'])]
    for ch in "*+?()[]{}|^$\\.":
        H.append(("meta-%s" % ch, [ct + ch.encode() + b"\r\n"]))
        H.append(("meta-x%sx" % ch, [ct + b"x" + ch.encode() + b"x\r\n"]))
    H += [("open-quote", [ct + b'"abc\r\n']), ("close-quote", [ct + b'abc"\r\n']), ("lone-quote", [ct + b'"\r\n']),
          ("empty-quotes", [ct + b'""\r\n']), ("empty", [ct + b"\r\n"]), ("spaces", [b"content-type: multipart/byteranges; BOUNDARY  =   " + BD.encode() + b"   \r\n"]),
          ("long-1000", [ct + b"L" * 1000 + b"\r\n"]), ("long-70000", [ct + b"M" * 70000 + b"\r\n"]), ("no-cr", [ct + BD.encode() + b"\n"]),
          ("no-eol", [ct + BD.encode()]), ("two-params", [ct + b"first; boundary=" + BD.encode() + b"\r\n"]),
          ("two-lines", [ct + b"other\r\n", ct + BD.encode() + b"\r\n"]), ("nul", [ct + b"ab\0cd\r\n"]), ("high", [ct + b"\xff\xfe\x80\r\n"]),
          ("utf8", [ct + "größe".encode() + b"\r\n"]), ("percent", [ct + b"%s%n%d\r\n"]), ("only-cr", [b"\r"]), ("boundary-only", [b"boundary=\r"]),
          ("range-bracket", [ct + b"[a-\r\n"]), ("backref", [ct + b"(a)\\1\r\n"]), ("brace", [ct + b"a{1,70000}\r\n"])]
    # every truncation of a header line (the transport hands lines over without a terminating NUL, in a buffer of exactly
    # their length): a comparison or search that runs past the end of a short line is visible to the sanitizer
    full = ct + BD.encode() + b"\r\n"
    for k in range(0, len(full)):
        H.append(("prefix-%d" % k, [full[:k]]))
    for k in (1, 5, 12, 13, 14):
        H.append(("upper-prefix-%d" % k, [full.upper()[:k]]))
    # small grammar of the boundary parameter, all combinations: separator spelling x value (empty, blanks, quotes in every
    # arrangement, one character) x trailing blanks x line end.  Value-dependent slips of the extraction code (trimming
    # with nothing left to trim, a quote as the only character, a blank as the whole value) live here.
    pre = b"Content-Type: multipart/byteranges; boundary"
    seps = [b"=", b" =", b"= ", b" = ", b"=\t"]
    vals = [b"", b" ", b"  ", b"x", b"x ", b" x", b'"', b'""', b'" "', b'"x"', b'"x', b'x"', b'" x "', b'"x" ', b"'", b"''", b"\t", b";", b"x;", b'"";']
    eols = [b"\r\n", b"\n", b"", b" \r\n"]
    for si, sp in enumerate(seps):
        for vi, v in enumerate(vals):
            for ei, e in enumerate(eols):
                H.append(("grammar-s%d-v%d-e%d" % (si, vi, ei), [pre + sp + v + e]))
    return H


class Resp:
    """token-level description of a multipart response so that deviations can be applied structurally"""

    def __init__(self, b, ranges, boundary=BD):
        self.total = len(b)
        self.parts = []
        for (a, z) in ranges:
            self.parts.append({"pre": b"\r\n", "dash": b"--", "bd": boundary.encode("latin1"), "eol": b"\r\n",
                               "h1": b"Content-Type: application/octet-stream\r\n",
                               "cr": b"Content-Range: bytes %d-%d/%d" % (a, z, len(b)), "creol": b"\r\n", "blank": b"\r\n", "pay": b[a:z + 1]})
        self.term = {"pre": b"\r\n", "dash": b"--", "bd": boundary.encode("latin1"), "end": b"--", "eol": b"\r\n"}
        self.trail = b""

    def render(self):
        out = bytearray()
        for p in self.parts:
            out += p["pre"] + p["dash"] + p["bd"] + p["eol"] + p["h1"] + p["cr"] + p["creol"] + p["blank"] + p["pay"]
        t = self.term
        out += t["pre"] + t["dash"] + t["bd"] + t["end"] + t["eol"] + self.trail
        return bytes(out)


def deviations(nparts, ranges, total):
    """menu: list of (name, function mutating a Resp)"""
    M = []

    def per_part(name, fn):
        for k in range(nparts):
            M.append(("%s[%d]" % (name, k), (lambda r, k=k, fn=fn: fn(r.parts[k], k))))

    per_part("pre-no-cr", lambda p, k: p.__setitem__("pre", b"\n"))
    per_part("pre-no-lf", lambda p, k: p.__setitem__("pre", b"\r"))
    per_part("pre-none", lambda p, k: p.__setitem__("pre", b""))
    per_part("pre-double", lambda p, k: p.__setitem__("pre", b"\r\n\r\n"))
    per_part("no-dashes", lambda p, k: p.__setitem__("dash", b""))
    per_part("one-dash", lambda p, k: p.__setitem__("dash", b"-"))
    per_part("wrong-boundary", lambda p, k: p.__setitem__("bd", b"zzzz"))
    per_part("boundary-prefix", lambda p, k: p.__setitem__("bd", p["bd"][:-1]))
    per_part("delim-eol-lf", lambda p, k: p.__setitem__("eol", b"\n"))
    per_part("delim-is-terminator", lambda p, k: p.__setitem__("eol", b"--\r\n"))
    per_part("no-content-range", lambda p, k: p.__setitem__("cr", b"X-Nothing: 1"))
    per_part("cr-inverted", lambda p, k: p.__setitem__("cr", b"Content-Range: bytes %d-%d/%d" % (ranges[k][1], ranges[k][0], total)))
    per_part("cr-zero-length", lambda p, k: p.__setitem__("cr", b"Content-Range: bytes %d-%d/%d" % (ranges[k][0], ranges[k][0] - 1, total)))
    per_part("cr-20-digits", lambda p, k: p.__setitem__("cr", b"Content-Range: bytes 99999999999999999999-99999999999999999999/99999999999999999999"))
    per_part("cr-wrap", lambda p, k: p.__setitem__("cr", b"Content-Range: bytes 1-18446744073709551615/5"))
    per_part("cr-0-max", lambda p, k: p.__setitem__("cr", b"Content-Range: bytes 0-18446744073709551614/5"))
    per_part("cr-non-numeric", lambda p, k: p.__setitem__("cr", b"Content-Range: bytes abc-def/ghi"))
    per_part("cr-star", lambda p, k: p.__setitem__("cr", b"Content-Range: bytes %d-%d/*" % ranges[k]))
    per_part("cr-other-offset", lambda p, k: p.__setitem__("cr", b"Content-Range: bytes %d-%d/%d" % (0, ranges[k][1] - ranges[k][0], total)))
    per_part("cr-longer", lambda p, k: p.__setitem__("cr", b"Content-Range: bytes %d-%d/%d" % (ranges[k][0], ranges[k][1] + 5, total)))
    per_part("cr-shorter", lambda p, k: p.__setitem__("cr", b"Content-Range: bytes %d-%d/%d" % (ranges[k][0], ranges[k][1] - 5, total)))
    per_part("cr-eol-lf", lambda p, k: p.__setitem__("creol", b"\n"))
    per_part("no-blank-line", lambda p, k: p.__setitem__("blank", b""))
    per_part("blank-lf-only", lambda p, k: p.__setitem__("blank", b"\n"))
    per_part("nul-in-header", lambda p, k: p.__setitem__("h1", b"Content-Type: a\0b\r\n"))
    per_part("huge-header", lambda p, k: p.__setitem__("h1", b"X-Pad: " + b"p" * 40000 + b"\r\n"))
    per_part("payload+3", lambda p, k: p.__setitem__("pay", p["pay"] + b"xyz"))
    per_part("payload-3", lambda p, k: p.__setitem__("pay", p["pay"][:-3]))
    per_part("payload-empty", lambda p, k: p.__setitem__("pay", b""))
    per_part("payload-flipped", lambda p, k: p.__setitem__("pay", bytes([p["pay"][0] ^ 1]) + p["pay"][1:]))
    per_part("payload-contains-delimiter", lambda p, k: p.__setitem__("pay", p["pay"][:2] + b"\r\n--" + p["bd"] + b"\r\n\r\n" + p["pay"][2:]))
    M.append(("drop-part[0]", lambda r: r.parts.pop(0)))
    M.append(("dup-part[0]", lambda r: r.parts.insert(0, dict(r.parts[0]))))
    M.append(("swap-parts", lambda r: r.parts.reverse()))
    M.append(("no-terminator", lambda r: (r.term.__setitem__("pre", b""), r.term.__setitem__("dash", b""), r.term.__setitem__("bd", b""),
                                         r.term.__setitem__("end", b""), r.term.__setitem__("eol", b""))))
    M.append(("terminator-wrong-boundary", lambda r: r.term.__setitem__("bd", b"qqq")))
    M.append(("terminator-no-final-dashes", lambda r: r.term.__setitem__("end", b"")))
    M.append(("terminator-twice", lambda r: setattr(r, "trail", b"\r\n--" + r.term["bd"] + b"--\r\n")))
    M.append(("trailing-bytes", lambda r: setattr(r, "trail", b"epilogue\r\n\r\nmore")))
    M.append(("trailing-part", lambda r: setattr(r, "trail", b"\r\n--" + r.term["bd"] + b"\r\nContent-Range: bytes 0-3/9\r\n\r\nABCD")))
    M.append(("trailing-64k", lambda r: setattr(r, "trail", b"T" * 65536)))
    return M


def judge(p, ext, b, t0, tmark, req_ranges, o):
    """confinement and verified-validity on one observed outcome"""
    t1 = core.unhex(o["file"]) if not o["file"].startswith("#") else None
    flags = o["flags"]
    if t1 is None:
        return "target-grew", "target is %s bytes" % o["file"].split(":")[-1]
    if len(t1) != len(t0):
        return "target-length-changed", "%d -> %d bytes" % (len(t0), len(t1))
    allowed = set()
    for i, (off, ln) in enumerate(ext):
        if tmark[i] != "+" and any(a <= off and off + ln - 1 <= z for a, z in req_ranges):
            allowed.update(range(off, off + ln))
    for q in range(len(t0)):
        if t1[q] != t0[q] and q not in allowed:
            where = "header" if q < p.header_len else "chunk %d" % next((i for i, (off, ln) in enumerate(ext) if off <= q < off + ln), -1)
            return "byte-outside-requested-extents-modified", "offset %d (%s)" % (q, where)
    if flags == "-" or len(flags) != len(ext):
        return "markings-unreadable", flags
    for i, ((off, ln), c) in enumerate(zip(ext, p.chunks)):
        if flags[i] == "+" and ln > 0 and zckref.digest(p.ctype, t1[off:off + ln]) != c.digest:
            return "chunk-valid-but-bytes-do-not-match-digest", "chunk %d" % i
        if tmark[i] == "+" and flags[i] != "+":
            return "valid-chunk-lost-its-marking", "chunk %d" % i
    return None


def work(arg, timeout_ms=60000):
    name, b, tmark, req, items = arg     # items: (label, klass, hdr lines, body, cuts)
    p = zckref.parse(b)
    ext = zckref.extents(p)
    rr = httpsim.parse_range_string(req)
    t0 = bytearray(b"\xaa" * len(b)); t0[:p.header_len] = b[:p.header_len]
    for i, (off, ln) in enumerate(ext):
        if tmark[i] == "+":
            t0[off:off + ln] = b[off:off + ln]
    t0 = bytes(t0)
    job = ["tgt %s" % b.hex(), "chunk 16", "timeout %d" % timeout_ms]
    for label, klass, hdr, body, cuts, *second in items:
        line = "case tmark=%s limit=-1 hdr=%s body=%s cuts=%s" % (tmark, ";".join(h.hex() for h in hdr) or "-", body.hex() or "-", cuts)
        if second:      # (header lines, body, what the client does in between) of a second response on the same zckDL
            h2, b2, between = second[0]
            line += " hdr2=%s body2=%s between=%d" % (";".join(h.hex() for h in h2) or "-", b2.hex() or "-", between)
        job.append(line)
    cs = core.drv("feed", "\n".join(job) + "\n", timeout=7200)
    res = {"n": 0, "parts": 0, "wrote": 0, "viol": [], "outcomes": set()}
    for c, (label, klass, hdr, body, cuts, *second) in zip(cs, items):
        res["n"] += 1
        case = {"name": name, "b": b.hex(), "tmark": tmark, "req": req, "label": label, "klass": klass, "hdr": [h.hex() for h in hdr],
                "body": body.hex() if len(body) < 200000 else None, "cuts": cuts}
        if second:
            case["second"] = [[h.hex() for h in second[0][0]], second[0][1].hex(), second[0][2]]
        f = c.first("F")
        if (not c.done or f is None) and c.status()["timeout"] and timeout_ms < 600000:
            # a timed-out case is re-run alone with ten times the limit before it is called a hang
            r2 = work((name, b, tmark, req, [(label, klass, hdr, body, cuts) + tuple(second)]), timeout_ms * 10)
            res["parts"] += r2["parts"]; res["wrote"] += r2["wrote"]; res["outcomes"] |= r2["outcomes"]; res["viol"] += r2["viol"]
            res["slow"] = res.get("slow", 0) + 1
            continue
        if not c.done or f is None:
            st = c.status()
            pred = "timeout" if st["timeout"] else ("sanitizer-report" if st["san"] else "fatal-signal-or-abort")
            site = ""
            for ln in st["san"].split("\n"):
                if "/src/lib/" in ln:
                    site = ln.split("/src/lib/")[-1].split(":")[0]
                    break
            res["viol"].append(({"check": "C17", "predicate": pred, "class": klass, "site": site},
                                "%s request=%s %s cuts=%s: %s" % (name, req, label, cuts, st), case))
            continue
        res["parts"] += int(f["n"])
        if core.unhex(f["req"]).decode() != req:
            raise core.HarnessError("request changed: %s vs %s" % (f["req"], req))
        for o in c.all("O"):
            v = judge(p, ext, b, t0, tmark, rr, o)
            res["outcomes"].add((o["flags"], o["bad"] != "-1"))
            if o["flags"] != tmark.replace("0", "0"):
                res["wrote"] += 1
            if v:
                res["viol"].append(({"check": "C17", "predicate": v[0], "class": klass},
                                    "%s request=%s %s cuts=%s (partition %s): %s" % (name, req, label, cuts, o["cuts"], v[1]), case))
                break
    return res


def run(ctx):
    thorough = ctx.tier == "thorough"
    specs = [("abca", Cfg(0, b"", 0, 3, 1))] + ([("abcd", Cfg(2, universe.DELTA_DICT, 0, 3, 1))] if thorough else [])
    files = universe.lib_files(specs, ctx.seed)
    H = header_lines()
    jobs = []
    ncases = 0
    for (w, cfg), b in zip(specs, files):
        name = "lib:%s:%s" % (w, cfg.name())
        p = zckref.parse(b)
        ext = zckref.extents(p)
        n = len(p.chunks)
        # two markings: two separate ranges (multipart) and one range (plain)
        idx = [i for i in range(n) if ext[i][1] > 0]
        m2 = "".join("0" if i in (idx[0], idx[2]) else "+" for i in range(n))
        m1 = "".join("0" if i in (idx[1], idx[2]) else "+" for i in range(n))
        reqs = {}
        for m in (m1, m2):
            cs = core.drv("ranges", "file %s\ncase mark=%s limit=-1 noscan=0 feed=0\n" % (b.hex(), m))
            reqs[m] = core.unhex(cs[0].first("G")["str"]).decode()
        items2, items1 = [], []
        rr = httpsim.parse_range_string(reqs[m2])
        good = Resp(b, rr).render()
        # header lines x {well-formed body for the good boundary, body using the announced text as boundary}
        for hname, hl in H:
            for cuts in (("-",) if hname.startswith("grammar-") else ("-", "all1")):
                items2.append(("hdr=%s body=well-formed" % hname, "header-line", hl, good, cuts))
            if hname.startswith("grammar-"):
                continue
            announced = hl[-1].split(b"boundary=")[-1].rstrip(b"\r\n").strip(b'"') if hl and b"boundary=" in hl[-1] else None
            if announced and len(announced) < 2000 and b"\0" not in announced:
                items2.append(("hdr=%s body=uses-announced-boundary" % hname, "header-line", hl, Resp(b, rr, announced.decode("latin1")).render(), "-"))
                bb = Resp(b, rr, announced.decode("latin1")).render()
                for lo in range(1, len(bb), 150):
                    items2.append(("hdr=%s body=uses-announced-boundary" % hname, "header-line", hl, bb, "sweep1:%d:%d" % (lo, min(len(bb), lo + 150))))
        hgood = [b"Content-Type: multipart/byteranges; boundary=" + BD.encode() + b"\r\n"]
        # every pair of cuts of the well-formed response: carried-over part headers across three invocations (the buffers the
        # parser merges and keeps are where overlapping copies and stale pointers live)
        if ncases == 0 or thorough:
            for lo in range(1, len(good), 40):
                items2.append(("hdr=good body=well-formed", "two-cuts", hgood, good, "sweep2:%d:%d" % (lo, min(len(good), lo + 40))))
            # ... and with a second part header much longer than everything in front of it (legal: extra part headers), first
            # cut anywhere in the first part header
            rl = Resp(b, rr)
            rl.parts[1]["h1"] = b"Content-Type: application/octet-stream\r\nX-Padding: " + b"p" * 300 + b"\r\n"
            longb = rl.render()
            for lo in range(1, 130, 10):
                items2.append(("hdr=good body=long-second-part-header", "two-cuts", hgood, longb, "sweep2:%d:%d" % (lo, lo + 10)))
        menu = deviations(len(rr), rr, len(b))
        devs = [(d,) for d in menu] + (list(itertools.combinations(menu, 2)) if thorough else
                                      [(a, c) for a, c in itertools.combinations(menu, 2) if a[0].endswith("[0]") and (c[0].endswith("[1]") or "[" not in c[0])])
        seen = set()
        for combo in devs:
            r = Resp(b, rr)
            try:
                for _, fn in combo:
                    fn(r)
                body = r.render()
            except (IndexError, KeyError):
                continue
            if body in seen:
                continue
            seen.add(body)
            label = "deviations=" + "+".join(d[0] for d in combo)
            big = len(body) > 20000
            for cuts in (("-", "k16384", "k1000") if big else (("-", "all1", "sweep1") if len(combo) == 1 or thorough else ("-", "all1"))):
                items2.append((label, "deviation", hgood, body, cuts))
        for k in range(len(good)):
            items2.append(("truncated-at=%d" % k, "truncation", hgood, good[:k], "-"))
            items2.append(("truncated-at=%d" % k, "truncation", hgood, good[:k], "all1"))
        short = [bytes(x) for ln in (0, 1, 2) for x in itertools.product(range(256), repeat=ln)] if thorough else \
                [bytes(x) for ln in (0, 1) for x in itertools.product(range(256), repeat=ln)] + \
                [bytes(x) for x in itertools.product(b"\r\n-\0a0", repeat=2)]
        for s in short:
            items2.append(("short-body=%s" % s.hex(), "short-body", hgood, s, "all1"))
        # plain bodies (no multipart header): every length 0..2x expected, and with a stray multipart header
        r1 = httpsim.parse_range_string(reqs[m1])
        exp = b"".join(b[a:z + 1] for a, z in r1)
        for ln in range(0, 2 * len(exp) + 1):
            body = (exp + bytes(range(256)) * 4)[:ln]
            items1.append(("plain-length=%d" % ln, "plain-length", [], body, "-"))
            items1.append(("plain-length=%d" % ln, "plain-length", [], body, "all1"))
        items1.append(("plain-flipped", "plain-corrupt", [], bytes([exp[0] ^ 1]) + exp[1:], "sweep1"))
        items1.append(("plain-with-multipart-header", "plain-corrupt", hgood, exp, "sweep1"))
        items1.append(("multipart-body-without-header", "plain-corrupt", [], good, "sweep1"))
        # two responses on one zckDL: whatever the client does in between (nothing, the range set again, a reset with or without
        # the range, a rescan of the target followed by a reset and a new request), the second header line and body meet the state the first response left behind (compiled patterns, boundary,
        # carried-over bytes, the position inside the range index)
        bd2 = "Zz9" + BD[::-1]
        hsecond = [b"Content-Type: multipart/byteranges; boundary=" + bd2.encode() + b"\r\n"]
        good2 = Resp(b, rr, bd2).render()
        firsts = [("well-formed", hgood, good), ("cut-in-part-header", hgood, good[:len(good) // 3]), ("cut-in-payload", hgood, good[:len(good) - 40]),
                  ("header-only", hgood, b""), ("plain", [], b"".join(b[a:z + 1] for a, z in rr)), ("bad-boundary-line", [b"Content-Type: multipart/byteranges; boundary=\"\r\n"], good)]
        seconds = [("other-boundary", hsecond, good2), ("same-boundary", hgood, good), ("plain", [], b"".join(b[a:z + 1] for a, z in rr)),
                   ("header-only", hsecond, b""), ("other-boundary-truncated", hsecond, good2[:len(good2) // 2])]
        for fn_, fh, fb in firsts:
            for sn_, sh, sb in seconds:
                for between in (0, 1, 2, 3, 4):
                    for cuts in ("-", "all1"):
                        items2.append(("first=%s between=%d second=%s" % (fn_, between, sn_), "two-responses", fh, fb, cuts, (sh, sb, between)))
        ncases += len(items1) + len(items2)
        items2.sort(key=lambda it: -len(it[3]) * (150 if it[4].startswith("sweep") else 1))   # heavy cases first, spread over the workers
        for k in range(48):
            if items2[k::48]:
                jobs.append((name, b, m2, reqs[m2], items2[k::48]))
        for ch in core.chunks(items1, 100):
            jobs.append((name, b, m1, reqs[m1], ch))
    ctx.bounds = {"targets": [s[0] + ":" + s[1].name() for s in specs], "header_lines": len(H), "deviation_menu": len(deviations(2, [(0, 1), (2, 3)], 9)),
                  "max_deviations": 2, "pairs": "all pairs" if thorough else "pairs of a first-part deviation with a second-part or global one",
                  "short_bodies": "all byte strings of length <= %d" % (2 if thorough else 1), "cases": ncases}
    ctx.rule = ("case = (header lines, response body, fragmentation); state count = callback partitions executed; "
                "non-trivial = distinct outcomes in which the target's markings changed")
    for r in core.pmap(work, jobs):
        ctx.states += r["parts"]; ctx.evaluations += r["parts"]; ctx.transitions += r["parts"]; ctx.nontrivial += r["wrote"]
        ctx.outcomes |= r["outcomes"]
        for sig, what, case in r["viol"]:
            ctx.violation(sig, what, case)
    ctx.sample({"header": "Content-Type: multipart/byteranges; boundary=(", "body": "well-formed for boundary 5f2a9c0e1b7d3", "cuts": "one byte per call",
                "expect": "callbacks return; nothing outside the two requested extents changes"})
    ctx.sample({"deviations": "cr-20-digits[0]+payload+3[1]", "cuts": "every single cut"})


def replay(case, quiet=True):
    if case["body"] is None:
        return {"violated": True, "detail": "body too large for the replay file; re-run the check"}
    sec = ()
    if case.get("second"):
        sec = (([bytes.fromhex(h) for h in case["second"][0]], bytes.fromhex(case["second"][1]), case["second"][2]),)
    r = work((case["name"], bytes.fromhex(case["b"]), case["tmark"], case["req"],
              [(case["label"], case["klass"], [bytes.fromhex(h) for h in case["hdr"]], bytes.fromhex(case["body"]), case["cuts"]) + sec]))
    return {"violated": bool(r["viol"]), "detail": [v[1] for v in r["viol"]]}
