#!/usr/bin/env python3
"""usage: seedspawn.py <round> <PID> "<focus text>"  - create scratch worktree + output dir for one seeding sub-agent and
print the prompt (template + property text + optional focus clause).  Nothing from /verif but the property text is given."""
import sys, os, json, subprocess
VERIF = os.path.dirname(os.path.dirname(os.path.abspath(__file__)))
rnd, pid = sys.argv[1], sys.argv[2]
focus = sys.argv[3] if len(sys.argv) > 3 else ""
tag = "%s-r%s" % (pid, rnd)
wt = "/tmp/seed-" + tag
out = "/tmp/seedout/" + tag
if not os.path.isdir(wt):
    subprocess.check_call(["git", "-C", "/repo", "worktree", "add", "--detach", "-q", wt, "HEAD"])
os.makedirs(out, exist_ok=True)
prop = None
for l in open(os.path.join(VERIF, "properties.jsonl")):
    p = json.loads(l)
    if p["id"] == pid:
        prop = p
text = "%s - %s\n\n%s" % (prop["id"], prop["title"], prop["statement"])
if focus:
    text += "\n\nFOCUS: of the several guarantees in this statement, aim your change at this part: " + focus
t = open(os.path.join(VERIF, "mc", "seed_prompt.tmpl")).read()
print(t.replace("__WT__", wt).replace("__OUT__", out).replace("__PROP__", text))
