#!/bin/bash
# usage: seedeval2.sh <tag> <tier> <check>...  - run checks against the seeding sub-agent's scratch worktree (VERIF_REPO), leaving /repo alone
tag=$1; tier=$2; shift 2
wt=${SEED_WT_PREFIX:-/tmp/seed-}$tag
for c in "$@"; do
  d=build/seedeval/$tag; mkdir -p $d
  out=$(VERIF_REPO=$wt VERIF_EVIDENCE_DIR=$d/evidence VERIF_REPLAY_DIR=$d/replays ./vf check $c --tier $tier 2>&1); rc=$?
  nv=$(echo "$out" | grep -c '^VIOLATION')
  echo "== $tag $c tier=$tier exit=$rc violations=$nv"
  echo "$out" | grep -A2 '^VIOLATION' | grep 'what:' | head -3 | cut -c1-300
  echo "$out" | grep -E 'HARNESS|Traceback' | head -3
done
