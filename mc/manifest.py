"""Generates MANIFEST.json from the table below; a property is claimed iff mc/props/<id>.py exists."""
import json, os
VERIF = os.path.dirname(os.path.dirname(os.path.abspath(__file__)))

T = {
    "C01": ("explicit-state", "exhaustive write/end-chunk histories x configurations (incl. chunk sizes, stored sizes and chunk counts on every 7-bit boundary of the integer encoding) x read schedules on the real writer and reader, read back through a descriptor opened between close and free, reference decoder as oracle",
            "Every write history over a tiny alphabet up to a stated depth, every configuration of the tiny universe, medium contents under every listed segmentation, and the zck/unzck tools in-process (split strings at every offset around block edges, option combinations incl. -o/-v/-c, every subset of descriptors 0-2 closed), each checked against an independent spec-derived decoder; termination by per-execution alarm.",
            "Contents outside the block/medium alphabets, histories deeper than the bound and zstd's own behaviour on other data are not covered; the reference decoder (mc/zckref.py, hashlib, libzstd via ctypes) is trusted."),
    "C02": ("explicit-state", "exhaustive raw and re-sealed structural mutation of small valid files (incl. every mix of the two identifiers, the detached-header identifier on every structural mutant, entries dressed up as empty in one size column, digest twins and chunk swaps whose digests share a leading 0x00), every truncation, read schedules; implication checked on every mutant",
            "All single-bit flips, all 255 substitutions of body bytes, every truncation/extension/indel and every listed re-sealed structural mutant of each base file are read through the real reader; success implies the content equals the base content or the reference decoding of the mutant.",
            "Base files are those of the tiny universe plus one medium file; at most two simultaneous structural deviations; the reference decoder is trusted."),
    "C03": ("deviation-bounded", "deviation-bounded structure-aware enumeration of correctly sealed headers (1-2 deviating fields), checksum-correct payload mutants, truncations and short files, bases of every lead length (16- to 64-byte overall digests) x API call sequences (all singles, all ordered pairs on files that open) and tools under ASan/UBSan with alarms",
            "Every sealed header with one (quick) or two (thorough) boundary-valued fields, every truncation, all byte strings of length <= 2, each driven through every public call sequence of depth <= 2 and every tool in a forked child under ASan+UBSan with a hang alarm.",
            "Only the listed boundary values and at most two deviating fields; sanitizer-visible undefined behaviour only; OOM paths excluded."),
    "C04": ("explicit-state", "exhaustive enumeration of (old file incl. damaged ones, new file, range limit, initial target) over the word universe driving the documented update loop against a reference range server (a new multipart boundary per response), long words that need several multi-range requests, and a connection dropped after every number of body bytes of the first chunk response followed by another round on the same zckDL, the client's own header/write callbacks registered behind the library's; the real zckdl main against a loopback HTTP range server in both tiers (also with a damaged old file), words with a one-byte chunk; thorough: the real zckdl main against a loopback HTTP range server",
            "All pairs of words up to length 3 (plus no source), compression/dictionary variants, range limits and initial target states run the documented procedure over the public API with a reference server; final bytes and the exact multiset of requested ranges are compared with set arithmetic on the reference chunk table.",
            "Words over a small block alphabet; the in-process reference server (drv/scen_update.c) and the loopback server (mc/httpd.py) are trusted; the real zckdl main is exercised only in the thorough tier."),
    "C05": ("schedule-bounded", "exhaustive enumeration of all 1-cut and 2-cut partitions of well-formed range responses into callback invocations, all missing-chunk subsets, boundary/header spellings (every RFC 2046 boundary character at start/middle/end), per-chunk corruptions incl. digest twins, the application's own callbacks chained behind the library's, fwrite-style call shapes (1,n) / (n,1) / (k,n/k), a dropped first response followed by reset and a new request, chunks above 32 KiB",
            "Every partition with <= 2 cuts (plus all-1-byte and k-byte pieces) of every response format for every non-empty set of missing chunks is fed to the real callbacks; final file bytes, per-chunk flags and return values must equal the reference reassembler's, and nothing outside the requested extents may change.",
            "Responses of 300-600 bytes, parts in request order, at most two cuts exhaustively."),
    "C06": ("explicit-state", "exhaustive single-byte substitution (all 255 values at every header position), indels with adjusted size field, wrong-recipe digests, bases whose header digest contains 0x00 at byte 0/1/2, headers of exactly one and two internal buffers, contexts that validated another file's lead before, and every substitute again under every single allocation failure of the open (allocator seam; plain open, and advanced interface with the failed step retried after zck_clear_error); open verdict on the real reader",
            "For every base file every header position takes every other byte value; every mutant must fail to open in both open paths, and every unmutated reference- or library-written file must open.",
            "Single-byte edits (plus indels and wrong-recipe digests) of the listed base files; hash collisions are not considered; under an allocation failure only 'does not open' is demanded."),
    "C07": ("explicit-state", "exhaustive enumeration of pinned (type, digest string, length) combinations, every byte value at every digest-string position, digests differing in several bytes at once (xor/sum-preserving pairs, swaps, rotations), setter orders, options set twice, lead validation repetitions, the file swapped behind the descriptor, the same context handed a file again, against a three-line reference model",
            "Every byte value at every position of the digest string, all listed lengths/types/orders and validate-lead repetitions are executed on the real option setters and lead reader and compared with the acceptance model; single-byte header substitutions are re-run under full pinning.",
            "Model covers orders the API accepts; a refused ordering makes no claim."),
    "C08": ("explicit-state", "exhaustive enumeration of (source damage, target validity subset, copy sequence) over the word universe, re-sealed sources carrying a target chunk's digests with another length, dictionary pairs with the uncompressed-source flag, digest twins, chunks above 32 KiB, ZCK_NO_WRITE set on the target or source context, on the real copy/matching calls",
            "All target words with every subset of chunks pre-valid, all source words with per-chunk damage, truncations and crafted indexes, one or two copy calls; after every call validity flags, extents, untouched bytes and source bytes are compared with reference hashing.",
            "Words up to length 3 over four blocks; at most two sources."),
    "C09": ("explicit-state", "explicit-state exploration of on-disk states (per-chunk correct/zeroed/flipped/absent, every truncation, reference-written index entries without stored bytes, digest twins, chunks above 32 KiB incl. periodic content) x validation-call histories (incl. partial reads and chunk requests in between) on the real scanner",
            "Every on-disk state of the listed targets and every history of validate-all / validate-data / find-valid up to the depth, followed by a full read, compared with a reference recomputation from the bytes on disk.",
            "Targets of 3-4 chunks; histories up to length 3 (4 thorough)."),
    "C10": ("explicit-state", "exhaustive enumeration of all 2^N validity markings for N<=10 (12 thorough) chunk tables x range limits, all three-valued (valid/missing/failed) markings of the smaller tables, every ordered pair of markings as two requests on one context, every table also seen through its detached header, index entries without stored bytes between missing chunks; large tables at every string-buffer phase; set arithmetic oracle",
            "All markings (produced through the public scan flow) of all chunk tables up to N chunks and all listed limits are given to the real range builder and renderer and compared with set arithmetic; large tables sweep every alignment across the buffer growth thresholds.",
            "N <= 10 (12) exhaustively; larger tables only in the alternating family; for failed chunks both readings (left out / requested) are accepted."),
    "C11": ("crash-point exhaustive", "explicit-state BFS over target-file states reached by killing the update at every write/ftruncate and at every byte count inside each write, resumed with fresh contexts (incl. files with the uncompressed-source flag resumed without the old file, and chunks above two scan buffers with periodic content killed around every 4 KiB step)",
            "Every kill point (every system call, every byte offset) of each update scenario is executed via the link-time seam; every reached on-disk state is resumed to completion and, to depth 2 for selected scenarios, killed again.",
            "Process kill, not power loss; scenarios are the listed small pairs."),
    "C12": ("deviation-bounded", "deviation-bounded exploration of environment answers: every single fault (EIO/ENOSPC/EINTR/short count) at every read/write/lseek of each scenario (writer, reader incl. files without a data digest, validations, chunk requests, copy, update, chunks of several buffer passes, the tools incl. unzck --header and zck -s), all pairs for short scenarios",
            "A fault-free run records N environment calls; then every call x every alternative answer is executed (all pairs thorough) through the link-time seam, and a reported success is compared with what really reached the descriptors.",
            "Faults limited to the listed errno values and short counts; at most two faults per execution."),
    "C13": ("explicit-state", "exhaustive enumeration of headers the reference writer can emit within the stated field domains (incl. running sums placed on every 2^63 / 2^64 limit) and their re-sealed field mutations, getter dump compared with the reference parser; the open repeated under every single allocation failure (allocator seam) must refuse or report the same; the zck_read_header tool under every subset of -c -q -f -v, printed fields and chunk rows against the reference parser",
            "Every header in the stated product of digests, flags, optional elements and boundary sizes, plus re-sealed count/width/overflow mutations, is opened by the real reader; on success every getter and the chunk iteration must equal the reference parser, and malformed headers must be refused.",
            "Field values from the listed boundary sets; up to 4 chunks."),
    "C14": ("explicit-state", "exhaustive enumeration of all chunk-request sequences up to length 4 (5 thorough) over every chunk incl. dictionary and last, and of sequences over the alphabet extended by history operations on the same context (sequential reads, scans, half-buffer requests); files of every chunk / overall digest type; state = history replayed on a fresh context",
            "Every sequence of data/stored requests up to the depth on every listed file, each request compared with the slice of the original content / stored bytes and with the same request on a fresh context.",
            "Files of 3-4 chunks; sequences up to length 4 (5); results of the history operations themselves are not judged."),
    "C15": ("explicit-state", "exhaustive single-bit flips (all substitutions thorough) of every body byte x every read buffer size 1..chunk+2, and every call history (find-matching, validate, find-valid, chunk requests, pairs) before the read on every still-decompressing mutant, each also with the error cleared after a failed read (recover mode); attribution of returned bytes to chunks via the reference index",
            "Every corruption in the stated space that still decompresses is among the mutants; every read size is tried; no successful read may return a byte of a chunk whose stored bytes mismatch its digest.",
            "zstd files of three data chunks from the block alphabet."),
    "C16": ("explicit-state", "exhaustive 1-cut and boundary-neighbourhood 2-cut write segmentations, edits at every boundary neighbourhood, rolling-hash hit windows placed at every offset around the effective minimum and maximum (written whole and with the bytes around the hit one per call); a battery of refused option calls in front of the writes; byte-identity, chunk-locality and size-bound oracle",
            "The same content delivered whole, with every single cut position, every cut pair near chunk boundaries and the k-byte schedules must give byte-identical files; edits at every listed position must leave chunks before and after the edit region identical.",
            "Contents of the medium generator families; rolling-hash behaviour on other data not covered."),
    "C17": ("deviation-bounded", "deviation-bounded enumeration of malformed header lines (incl. a grammar product of the boundary parameter) and response bodies (<=2 deviations from well-formed, every truncation, all byte strings of length <=2) x fragmentations, and pairs of responses on one zckDL with every client action in between (nothing, range set again, reset, reset without range), under ASan/UBSan",
            "Every listed header line, every body within two deviations of a well-formed response, every truncation and fragmentation is fed to the real callbacks in forked children under sanitizers; confinement and verified-validity are checked on the target afterwards.",
            "The deviation menu is finite; sanitizer-visible undefined behaviour only."),
    "C18": ("explicit-state", "exhaustive message lengths 0..300 (600 thorough) x every split point (all split pairs at padding edges) x content families on both hash backends, three-way comparison with CPython's built-in SHA",
            "Both builds are compiled from the tree; every length, split and family is hashed by each and compared with an independent implementation; files written by each build are compared byte for byte and cross-read.",
            "Lengths up to 300 (600) plus one 2^29-byte message."),
    "C19": ("schedule-bounded", "stateless exploration of all thread schedules with <=2 preemptions (thorough: 4 for pairs, 2 for triples) at system-call granularity under a cooperative scheduler, one fresh process per schedule, plus a free-running ThreadSanitizer pass of the same bodies for both checksum backends",
            "All schedules within the preemption bound of every pair of ten scenarios (copy, write, read, validate, plain and multipart download callbacks, whole life of a reading and of a writing context, name/range/error/matching calls, a context switched to ZCK_NO_WRITE) are executed on the real code with the scheduler deciding at every wrapped system call; each thread's results must equal its serial baseline; a separate TSan build reports unsynchronised accesses.",
            "Interleavings only at system-call granularity in pass 1; finer races rely on TSan's happens-before analysis."),
    "C20": ("explicit-state", "exhaustive enumeration of every value below 2^21 (round trip) and every byte string of length <=3 plus long strings with the last three positions enumerated, flush against a guard page, cursors already past the end of the buffer, on fresh, writing and reading contexts, against exact integer arithmetic",
            "Every string in the stated space is decoded by the real decoder placed against an inaccessible page at every listed (offset, limit) combination and compared with exact arithmetic; every value in the stated range is round-tripped.",
            "Internal codec functions are called directly (the property is about this seam)."),
}


def write():
    checks = []
    na = []
    for pid in sorted(T):
        engine, tech, text, note = T[pid]
        if os.path.exists(os.path.join(VERIF, "mc", "props", pid + ".py")):
            checks.append({
                "property_id": pid,
                "quick_cmd": "./vf check %s --tier quick" % pid,
                "thorough_cmd": "./vf check %s --tier thorough" % pid,
                "evidence_file": "evidence/%s.json" % pid,
                "replay_cmd_template": "./vf replay {path}",
                "engine": engine,
                "level_claimed": {"category": "model_checking", "text": text, "design_ref": "DESIGN.md section 4, " + pid},
                "level_note": note,
                "technique": "model checking: " + tech,
            })
        else:
            na.append({"property_id": pid, "reason": "check not built yet in this revision of /verif (planned, see DESIGN.md section 4); not claimed until it exists"})
    m = {
        "version": 1,
        "setup_cmd": "./vf setup",
        "hooks": {
            "guard": "ZCHUNK_VERIF",
            "enable": "-DZCHUNK_VERIF is passed by mc/build.py to every verification build; no guarded code exists in /repo (all seams are link-time: -Wl,--wrap=read,write,lseek,...)",
            "baseline_off_cmd": "./vf baseline",
            "source_commits": [],
            "add_only": True,
        },
        "engines": [
            {"name": "drv", "path": "drv/", "serves_properties": sorted(T), "kind_free_text": "C driver linked against the repository's objects built from the working tree: batch runner with fork isolation, link-time environment seam, deviation-bounded explorer, cooperative scheduler"},
            {"name": "mc", "path": "mc/", "serves_properties": sorted(T), "kind_free_text": "Python side: case enumeration, explicit-state search with canonical-state dedup, spec-derived reference model (zckref.py), verdicts, evidence"},
        ],
        "checks": checks,
        "not_applicable": na,
        "notes": "All checks explore the real implementation exhaustively within stated bounds (see DESIGN.md). exit 0 = held on everything explored; exit 1 = VIOLATION line(s); exit 2 = harness error.",
    }
    json.dump(m, open(os.path.join(VERIF, "MANIFEST.json"), "w"), indent=1)
    print("MANIFEST.json: %d checks, %d not claimed" % (len(checks), len(na)))


if __name__ == "__main__":
    write()
