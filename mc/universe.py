"""Shared small-scope universe: tiny configurations, words over the block alphabet, base files written by the
reference writer and by the library writer (through the driver)."""
import itertools, os, hashlib
import core, zckref

DELTA_DICT = (b"The quick brown fox jumps over the lazy dog. " * 2)[:64]


class Cfg:
    """a writer configuration of the tiny universe"""
    __slots__ = ("comp", "dict", "uncomp", "chash", "fhash", "level")

    def __init__(self, comp=0, dict_=b"", uncomp=0, chash=3, fhash=1, level=-1):
        self.comp, self.dict, self.uncomp, self.chash, self.fhash, self.level = comp, dict_, uncomp, chash, fhash, level

    def legal(self):
        # with the uncompressed-source flag the format forbids SHA-1 / SHA-512/128 chunk digests; the library
        # silently upgrades them to SHA-256, so those combinations duplicate others - skip them
        if self.uncomp and self.chash in (0, 3):
            return False
        return True

    def name(self):
        return "c%d%s%s.ch%d.fh%d%s" % (self.comp, "D" if self.dict else "", "U" if self.uncomp else "", self.chash,
                                         self.fhash, ".l%d" % self.level if self.level >= 0 else "")

    def line(self, manual=1, mn=0, mx=0, mx2=0, refuse=0):
        return "cfg comp=%d dict=%s uncomp=%d chash=%d fhash=%d manual=%d min=%d max=%d max2=%d level=%d refuse=%d" % (
            self.comp, self.dict.hex() if self.dict else "-", self.uncomp, self.chash, self.fhash, manual, mn, mx, mx2, self.level, refuse)

    def flags(self):
        return 4 if self.uncomp else 0


def all_cfgs(comps=(0, 2), dicts=(b"", DELTA_DICT), uncomps=(0, 1), chashes=(0, 1, 2, 3), fhashes=(0, 1)):
    out = []
    for comp, d, u, ch, fh in itertools.product(comps, dicts, uncomps, chashes, fhashes):
        c = Cfg(comp, d, u, ch, fh)
        if c.legal():
            out.append(c)
    return out


def small_cfgs():
    """8 configurations touching every dimension"""
    return [Cfg(0, b"", 0, 3, 1), Cfg(2, b"", 0, 3, 1), Cfg(2, DELTA_DICT, 0, 3, 1), Cfg(0, DELTA_DICT, 0, 0, 0),
            Cfg(2, b"", 1, 1, 1), Cfg(0, b"", 1, 2, 1), Cfg(2, DELTA_DICT, 1, 2, 0), Cfg(2, b"", 0, 2, 0)]


def word_pieces(word, seed):
    b = core.blocks(seed)
    return [b[ch] for ch in word]


def ref_file(word, cfg, seed, detached=False):
    """file bytes written by the reference writer, one chunk per letter"""
    f, h, body = zckref.build_file(word_pieces(word, seed), comp=cfg.comp, htype=cfg.fhash, ctype=cfg.chash,
                                   flags=cfg.flags(), dict_=cfg.dict, level=(cfg.level if cfg.level >= 0 else 9),
                                   detached=detached)
    return f


def hist_for_pieces(pieces):
    ops = []
    for p in pieces:
        ops.append("w%d" % len(p))
        ops.append("e")
    return ",".join(ops) if ops else "-"


def lib_files(specs, seed, variant="asan"):
    """specs: list of (word, cfg).  Returns list of file bytes written by the library (manual chunking, one chunk per
    letter).  Raises HarnessError if the library fails to write a base file."""
    job = []
    for w, cfg in specs:
        pcs = word_pieces(w, seed)
        job.append(cfg.line(manual=1))
        job.append("content %s" % (b"".join(pcs).hex() or "-"))
        job.append("read -")
        job.append("hist %s" % hist_for_pieces(pcs))
    cases = core.drv("writehist", "\n".join(job) + "\n", variant)
    out = []
    for c, (w, cfg) in zip(cases, specs):
        wr = c.first("W")
        if not c.done or wr is None or wr.get("close") != "1":
            raise core.HarnessError("library failed to write base file %s/%s: %s %s" % (w, cfg.name(), wr, c.status()))
        out.append(core.unhex(wr["file"]))
    return out


def detach(filebytes):
    """detached header twin of a full file: header with the other magic, followed by the stored dictionary"""
    p = zckref.parse(filebytes)
    dl = p.chunks[0].clen if p.chunks else 0
    return zckref.MAGIC_HDR + filebytes[5:p.header_len + dl]


# ---- value-dependent shapes: digests that contain a 0x00 byte (a comparison with str* functions stops there) -------------
_zc = {}


def zero_hdr_file(cfg, seed, word="ab", pos=0, detached=False):
    """reference-written file of cfg (one chunk per letter plus a counter chunk) whose stored HEADER digest has 0x00 at
    byte `pos`; found by counting (about 256 tries)"""
    key = ("h", cfg.name(), seed, word, pos, detached)
    if key not in _zc:
        pcs = word_pieces(word, seed)
        for n in range(200000):
            f, h, body = zckref.build_file(pcs + [b"ctr%07d" % n], comp=cfg.comp, htype=cfg.fhash, ctype=cfg.chash, flags=cfg.flags(),
                                           dict_=cfg.dict, level=(cfg.level if cfg.level >= 0 else 9), detached=detached)
            p = zckref.parse(f)
            if p.hdigest[pos] == 0 and (pos == 0 or 0 not in p.hdigest[:pos]):
                _zc[key] = f
                break
        else:
            raise core.HarnessError("no header digest with a zero byte found")
    return _zc[key]


def zero_twins(ctype, comp, seed, dict_=b"", level=9, size=24, udigest=False):
    """(P, Q, sP, sQ): two different pieces of `size` bytes whose stored forms sP, sQ have equal length and whose digests
    (type ctype; of the stored bytes, or of the pieces themselves with udigest) both begin with 0x00 and differ"""
    key = ("t", ctype, comp, seed, dict_, level, size, udigest)
    if key not in _zc:
        by_len = {}
        for n in range(400000):
            pc = (b"twin%02d-%09d-" % (seed % 100, n)).ljust(size, b"t")[:size]
            st = pc if comp == 0 else zckref.zstd_compress(pc, level, dict_ or None)
            d = zckref.digest(ctype, pc if udigest else st)
            if d[0] != 0:
                continue
            k = len(st)
            if k in by_len and by_len[k][0] != pc:
                p0, s0 = by_len[k]
                _zc[key] = (p0, pc, s0, st)
                break
            by_len[k] = (pc, st)
        else:
            raise core.HarnessError("no digest twins found")
    return _zc[key]


def twin_file(cfg, seed, word="ab", at=1):
    """(good file, mutant file, content, chunk index, limit): reference-written file whose data chunk `at`+1 is the twin P
    of zero_twins(); the mutant has P's stored bytes replaced by Q's (same stored and uncompressed length, the digest of Q's
    stored bytes begins with the same 0x00 as P's and differs afterwards).  Only the chunk digest can tell them apart."""
    P, Q, sP, sQ = zero_twins(cfg.chash, cfg.comp, seed, cfg.dict, (cfg.level if cfg.level >= 0 else 9))
    pcs = word_pieces(word, seed)
    pcs = pcs[:at] + [P] + pcs[at:]
    f, h, body = zckref.build_file(pcs, comp=cfg.comp, htype=cfg.fhash, ctype=cfg.chash, flags=cfg.flags(), dict_=cfg.dict,
                                   level=(cfg.level if cfg.level >= 0 else 9))
    p = zckref.parse(f)
    ci = at + 1
    off, ln = zckref.extents(p)[ci]
    assert f[off:off + ln] == sP and len(sQ) == ln
    m = f[:off] + sQ + f[off + ln:]
    return f, m, b"".join(pcs), ci, sum(len(x) for x in pcs[:at]), Q


def zero_data_file(cfg, seed, word="ab"):
    """reference-written file (one chunk per letter plus a counter chunk) whose whole-DATA digest begins with 0x00"""
    key = ("d", cfg.name(), seed, word)
    if key not in _zc:
        pcs = word_pieces(word, seed)
        for n in range(200000):
            f, h, body = zckref.build_file(pcs + [b"dctr%07d" % n], comp=cfg.comp, htype=cfg.fhash, ctype=cfg.chash, flags=cfg.flags(),
                                           dict_=cfg.dict, level=(cfg.level if cfg.level >= 0 else 9))
            if h.data_digest[0] == 0 and not (cfg.flags() & 4):
                _zc[key] = f
                break
        else:
            raise core.HarnessError("no data digest with a leading zero byte found")
    return _zc[key]


def zero_swap_file(cfg, seed):
    """(good file, mutant, good content): three data chunks a, b, counter.  The mutant has a and b swapped in body AND index
    (every chunk verifies) but keeps the good file's data digest; both the stale and the actual data digest begin with 0x00.
    Only a full comparison of the data digest rejects it."""
    key = ("s", cfg.name(), seed)
    if key not in _zc:
        a, b = word_pieces("ab", seed)
        for n in range(3000000):
            pcs = [a, b, b"sctr%08d" % n]
            f, h, body = zckref.build_file(pcs, comp=cfg.comp, htype=cfg.fhash, ctype=cfg.chash, flags=cfg.flags(), dict_=cfg.dict)
            if h.data_digest[0] != 0:
                continue
            f2, h2, body2 = zckref.build_file([b, a, pcs[2]], comp=cfg.comp, htype=cfg.fhash, ctype=cfg.chash, flags=cfg.flags(), dict_=cfg.dict)
            if h2.data_digest[0] != 0:
                continue
            h2.data_digest = h.data_digest
            _zc[key] = (f, h2.build() + body2, b"".join(pcs))
            break
        else:
            raise core.HarnessError("no pair of data digests with a leading zero byte found")
    return _zc[key]


# ---- scale-dependent shapes: chunks larger than the library's 32 KiB copy / scan buffers --------------------------------
BUF = 32768


def big_file(cfg, seed, sizes=(40000, 32768, 70000, 100, 32769)):
    """(file, pieces): reference-written file whose chunks are larger than one and than two internal buffers, exactly one
    buffer, and one byte more; incompressible content, so the stored sizes are of the same order under zstd"""
    key = ("big", cfg.name(), seed, sizes)
    if key not in _zc:
        pcs = [core.prng_bytes(n, seed * 100 + 17 + i) for i, n in enumerate(sizes)]
        f, h, body = zckref.build_file(pcs, comp=cfg.comp, htype=cfg.fhash, ctype=cfg.chash, flags=cfg.flags(), dict_=cfg.dict,
                                       level=(cfg.level if cfg.level >= 0 else 3))
        _zc[key] = (f, pcs)
    return _zc[key]


def seam_offsets(p):
    """file offsets worth cutting or damaging in a file with big chunks: every chunk start and end, and every 32 KiB seam
    inside a chunk, each -1 / 0 / +1"""
    out = set()
    for off, ln in zckref.extents(p):
        if ln == 0:
            continue
        marks = [off, off + ln] + [off + k for k in range(BUF, ln, BUF)]
        for m in marks:
            for d in (-1, 0, 1):
                out.add(m + d)
    return sorted(out)


def big_periodic_file(cfg, seed):
    """like big_file, but the content of each big chunk repeats with a period that divides the 32 KiB buffer (0xFF padding, a
    256-byte ramp, zeros): a loop that goes on after a short read hashes what the previous pass left in its buffer, and
    with such content that is exactly what the file would have held"""
    key = ("bigp", cfg.name(), seed)
    if key not in _zc:
        ramp = bytes(range(256))
        pcs = [b"\xff" * 70000, (ramp * 200)[:40000], bytes(65536 + 10), b"tail" * 25, (ramp * 400)[:90000]]
        f, h, body = zckref.build_file(pcs, comp=cfg.comp, htype=cfg.fhash, ctype=cfg.chash, flags=cfg.flags(), dict_=cfg.dict, level=3)
        _zc[key] = (f, pcs)
    return _zc[key]


def header_sized_file(target, seed, htype=1, ctype=3):
    """reference-written uncompressed file whose header length (everything behind the lead) is exactly `target` bytes: many
    one-byte chunks and one optional element whose data fills the remainder"""
    key = ("hs", target, seed, htype, ctype)
    if key not in _zc:
        dsz = zckref.HASH_SIZES[ctype]
        n = (target - 110) // (dsz + 2)
        pcs = [bytes([1 + (i * 11 + seed) % 250]) for i in range(n)]
        f, h, body = zckref.build_file(pcs, comp=0, htype=htype, ctype=ctype)
        h.flags = 2
        for k in range(0, 127):
            h.optelems = [(1, b"o" * k)]
            if len(h.body()) == target:
                break
        else:
            raise core.HarnessError("cannot build a header of exactly %d bytes" % target)
        f = h.build() + body
        p = zckref.parse(f)
        assert p.header_len - p.lead_len == target, (p.header_len - p.lead_len, target)
        _zc[key] = f
    return _zc[key]
