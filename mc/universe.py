"""Shared small-scope universe: tiny configurations, words over the block alphabet, base files written by the
reference writer and by the library writer (through the driver)."""
import itertools, os, hashlib
import core, zckref

DELTA_DICT = (b"The quick brown fox jumps over the lazy dog. " * 2)[:64]


class Cfg:
    """a writer configuration of the tiny universe"""
    __slots__ = ("comp", "dict", "uncomp", "chash", "fhash", "level")

    def __init__(self, comp=0, dict_=b"", uncomp=0, chash=3, fhash=1, level=-1):
        self.comp, self.dict, self.uncomp, self.chash, self.fhash, self.level = comp, dict_, uncomp, chash, fhash, level

    def legal(self):
        # with the uncompressed-source flag the format forbids SHA-1 / SHA-512/128 chunk digests; the library
        # silently upgrades them to SHA-256, so those combinations duplicate others - skip them
        if self.uncomp and self.chash in (0, 3):
            return False
        return True

    def name(self):
        return "c%d%s%s.ch%d.fh%d%s" % (self.comp, "D" if self.dict else "", "U" if self.uncomp else "", self.chash,
                                         self.fhash, ".l%d" % self.level if self.level >= 0 else "")

    def line(self, manual=1, mn=0, mx=0, mx2=0):
        return "cfg comp=%d dict=%s uncomp=%d chash=%d fhash=%d manual=%d min=%d max=%d max2=%d level=%d" % (
            self.comp, self.dict.hex() if self.dict else "-", self.uncomp, self.chash, self.fhash, manual, mn, mx, mx2, self.level)

    def flags(self):
        return 4 if self.uncomp else 0


def all_cfgs(comps=(0, 2), dicts=(b"", DELTA_DICT), uncomps=(0, 1), chashes=(0, 1, 2, 3), fhashes=(0, 1)):
    out = []
    for comp, d, u, ch, fh in itertools.product(comps, dicts, uncomps, chashes, fhashes):
        c = Cfg(comp, d, u, ch, fh)
        if c.legal():
            out.append(c)
    return out


def small_cfgs():
    """8 configurations touching every dimension"""
    return [Cfg(0, b"", 0, 3, 1), Cfg(2, b"", 0, 3, 1), Cfg(2, DELTA_DICT, 0, 3, 1), Cfg(0, DELTA_DICT, 0, 0, 0),
            Cfg(2, b"", 1, 1, 1), Cfg(0, b"", 1, 2, 1), Cfg(2, DELTA_DICT, 1, 2, 0), Cfg(2, b"", 0, 2, 0)]


def word_pieces(word, seed):
    b = core.blocks(seed)
    return [b[ch] for ch in word]


def ref_file(word, cfg, seed, detached=False):
    """file bytes written by the reference writer, one chunk per letter"""
    f, h, body = zckref.build_file(word_pieces(word, seed), comp=cfg.comp, htype=cfg.fhash, ctype=cfg.chash,
                                   flags=cfg.flags(), dict_=cfg.dict, level=(cfg.level if cfg.level >= 0 else 9),
                                   detached=detached)
    return f


def hist_for_pieces(pieces):
    ops = []
    for p in pieces:
        ops.append("w%d" % len(p))
        ops.append("e")
    return ",".join(ops) if ops else "-"


def lib_files(specs, seed, variant="asan"):
    """specs: list of (word, cfg).  Returns list of file bytes written by the library (manual chunking, one chunk per
    letter).  Raises HarnessError if the library fails to write a base file."""
    job = []
    for w, cfg in specs:
        pcs = word_pieces(w, seed)
        job.append(cfg.line(manual=1))
        job.append("content %s" % (b"".join(pcs).hex() or "-"))
        job.append("read -")
        job.append("hist %s" % hist_for_pieces(pcs))
    cases = core.drv("writehist", "\n".join(job) + "\n", variant)
    out = []
    for c, (w, cfg) in zip(cases, specs):
        wr = c.first("W")
        if not c.done or wr is None or wr.get("close") != "1":
            raise core.HarnessError("library failed to write base file %s/%s: %s %s" % (w, cfg.name(), wr, c.status()))
        out.append(core.unhex(wr["file"]))
    return out


def detach(filebytes):
    """detached header twin of a full file: header with the other magic, followed by the stored dictionary"""
    p = zckref.parse(filebytes)
    dl = p.chunks[0].clen if p.chunks else 0
    return zckref.MAGIC_HDR + filebytes[5:p.header_len + dl]
