"""Reference range server: generates the response (header lines + body) an HTTP/1.1 server holding file B gives to a
byte-range request, in the spellings real servers use.  Written from RFC 7233 / RFC 2046; nothing here calls libzck."""


def parse_range_string(s):
    """'a-b,c-d' -> [(a, b)]"""
    out = []
    if not s:
        return out
    for item in s.split(","):
        a, b = item.split("-")
        out.append((int(a), int(b)))
    return out


class Style:
    """spelling choices of a multipart/byteranges response"""

    def __init__(self, boundary="00000000000000000001", quoted=False, cr_case=0, extra=0, lead_crlf=True, ctype_first=True,
                 star_total=False):
        self.boundary, self.quoted, self.cr_case, self.extra, self.lead_crlf = boundary, quoted, cr_case, extra, lead_crlf
        self.ctype_first, self.star_total = ctype_first, star_total

    def name(self):
        return "b=%r%s cr%d x%d %s" % (self.boundary, "q" if self.quoted else "", self.cr_case, self.extra,
                                       "crlf" if self.lead_crlf else "nocrlf")


CR_SPELLINGS = [b"Content-Range", b"content-range", b"CONTENT-RANGE"]


def plain(b, rng, payload=None):
    """single range: 206 with the bytes as the body"""
    a, z = rng
    body = payload if payload is not None else b[a:z + 1]
    hdr = [b"HTTP/1.1 206 Partial Content\r\n", b"Accept-Ranges: bytes\r\n",
           b"Content-Range: bytes %d-%d/%d\r\n" % (a, z, len(b)), b"Content-Length: %d\r\n" % len(body),
           b"Content-Type: application/octet-stream\r\n", b"\r\n"]
    return hdr, body, [(0, len(body), a)]


def multipart(b, ranges, st, payloads=None):
    """returns (header lines, body, layout) where layout = [(body offset, length, file offset)] of every payload"""
    bd = st.boundary.encode("latin1")
    bparam = b'"' + bd + b'"' if st.quoted else bd
    hdr = [b"HTTP/1.1 206 Partial Content\r\n", b"Accept-Ranges: bytes\r\n",
           b"Content-Type: multipart/byteranges; boundary=" + bparam + b"\r\n", b"\r\n"]
    body = bytearray()
    layout = []
    for i, (a, z) in enumerate(ranges):
        pay = payloads[i] if payloads is not None else b[a:z + 1]
        if i > 0 or st.lead_crlf:
            body += b"\r\n"
        body += b"--" + bd + b"\r\n"
        lines = []
        ct = b"Content-Type: application/octet-stream\r\n"
        cr = CR_SPELLINGS[st.cr_case] + b": bytes %d-%d/%d\r\n" % (a, z, len(b))
        if st.extra == 1:
            lines.append(b"X-Before: 1\r\n")
        lines += [ct, cr] if st.ctype_first else [cr, ct]
        if st.extra == 2:
            lines.append(b"X-After: bytes=none\r\n")
        body += b"".join(lines) + b"\r\n"
        layout.append((len(body), len(pay), a))
        body += pay
    body += b"\r\n--" + bd + b"--\r\n"
    return hdr, bytes(body), layout


def respond(b, range_string, st=None, payloads=None):
    rs = parse_range_string(range_string)
    if len(rs) == 1:
        return plain(b, rs[0], payloads[0] if payloads else None)
    return multipart(b, rs, st or Style(), payloads)
