#!/bin/bash
# usage: seedeval3.sh <tag> <tier> <check>...  - apply the sub-agent's patch.diff to a fresh worktree of /repo's current HEAD (the agent's
# own worktree may predate later fix: commits) and run checks against it
tag=$1; tier=$2; shift 2
wt=/dev/shm/vf-eval-$tag-$$
git -C /repo worktree add -q --detach $wt HEAD || exit 2
if ! git -C $wt apply ${SEED_OUT:-/tmp/seedout}/$tag/patch.diff 2>/dev/null; then echo "== $tag patch does not apply to HEAD"; git -C /repo worktree remove --force $wt; exit 3; fi
for c in "$@"; do
  d=build/seedeval/$tag; mkdir -p $d
  out=$(VERIF_REPO=$wt VERIF_EVIDENCE_DIR=$d/evidence VERIF_REPLAY_DIR=$d/replays ./vf check $c --tier $tier 2>&1); rc=$?
  nv=$(echo "$out" | grep -c '^VIOLATION')
  echo "== $tag $c tier=$tier exit=$rc violations=$nv"
  echo "$out" | grep -A2 '^VIOLATION' | grep 'what:' | head -3 | cut -c1-300
  echo "$out" | grep -E 'HARNESS|Traceback' | head -3
done
git -C /repo worktree remove --force $wt
