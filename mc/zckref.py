"""Reference model of the zchunk format, written from zchunk_format.txt only.

Nothing here calls into libzck.  Digests come from hashlib (and CPython's built-in _sha* modules as a
third implementation in C18), zstd from ctypes on libzstd.so.1 directly.
"""
import hashlib, ctypes, ctypes.util, struct

MAGIC_FILE = b"\0ZCK1"
MAGIC_HDR = b"\0ZHR1"
HASH_SIZES = {0: 20, 1: 32, 2: 64, 3: 16}
HASH_NAMES = {0: "SHA-1", 1: "SHA-256", 2: "SHA-512", 3: "SHA-512/128"}
# overall checksum types: the format text lists 0 and 1; the library also accepts 2 and 3 for the
# overall type.  The reference treats any of 0..3 as well-formed and lets checks decide what to demand.


def digest(t, data):
    if t == 0:
        return hashlib.sha1(data).digest()
    if t == 1:
        return hashlib.sha256(data).digest()
    if t == 2:
        return hashlib.sha512(data).digest()
    if t == 3:
        return hashlib.sha512(data).digest()[:16]
    raise ValueError("hash type %r" % (t,))


# ---------------------------------------------------------------- compressed integers
def enc_ci(v, pad=0):
    """canonical encoding of v; pad>0 appends that many zero groups (non-canonical, same value)"""
    assert v >= 0
    groups = []
    while True:
        groups.append(v & 0x7F)
        v >>= 7
        if v == 0:
            break
    groups += [0] * pad
    groups[-1] |= 0x80
    return bytes(groups)


def dec_ci(buf, off, limit=None):
    """exact decoding per the format text: returns (value, nbytes) or raises Invalid.
    limit = number of bytes available starting at off (defaults to len(buf)-off)."""
    if limit is None:
        limit = len(buf) - off
    v = 0
    n = 0
    while True:
        if n >= limit or off + n >= len(buf):
            raise Invalid("unterminated integer")
        c = buf[off + n]
        v |= (c & 0x7F) << (7 * n)
        n += 1
        if c & 0x80:
            return v, n


class Invalid(Exception):
    pass


class Unspecified(Exception):
    """the format text does not determine the outcome: checks make no claim"""


# ---------------------------------------------------------------- zstd via ctypes
_zstd = None


def zstd():
    global _zstd
    if _zstd is None:
        z = ctypes.CDLL("libzstd.so.1")
        z.ZSTD_compressBound.restype = ctypes.c_size_t
        z.ZSTD_compressBound.argtypes = [ctypes.c_size_t]
        z.ZSTD_isError.restype = ctypes.c_uint
        z.ZSTD_isError.argtypes = [ctypes.c_size_t]
        z.ZSTD_createCCtx.restype = ctypes.c_void_p
        z.ZSTD_freeCCtx.argtypes = [ctypes.c_void_p]
        z.ZSTD_createDCtx.restype = ctypes.c_void_p
        z.ZSTD_freeDCtx.argtypes = [ctypes.c_void_p]
        z.ZSTD_CCtx_setParameter.restype = ctypes.c_size_t
        z.ZSTD_CCtx_setParameter.argtypes = [ctypes.c_void_p, ctypes.c_int, ctypes.c_int]
        z.ZSTD_CCtx_loadDictionary.restype = ctypes.c_size_t
        z.ZSTD_CCtx_loadDictionary.argtypes = [ctypes.c_void_p, ctypes.c_char_p, ctypes.c_size_t]
        z.ZSTD_compress2.restype = ctypes.c_size_t
        z.ZSTD_compress2.argtypes = [ctypes.c_void_p, ctypes.c_void_p, ctypes.c_size_t, ctypes.c_char_p, ctypes.c_size_t]
        z.ZSTD_decompress_usingDict.restype = ctypes.c_size_t
        z.ZSTD_decompress_usingDict.argtypes = [ctypes.c_void_p, ctypes.c_void_p, ctypes.c_size_t, ctypes.c_char_p,
                                                ctypes.c_size_t, ctypes.c_char_p, ctypes.c_size_t]
        z.ZSTD_maxCLevel.restype = ctypes.c_int
        _zstd = z
    return _zstd


ZSTD_c_compressionLevel = 100
ZSTD_c_strategy = 107
ZSTD_btopt = 7


def zstd_compress(data, level=9, dict_=None):
    """frame compression; strategy pinned to btopt as the writer documents (used only to *produce* reference
    files - readers must accept any valid frame)."""
    z = zstd()
    c = z.ZSTD_createCCtx()
    try:
        z.ZSTD_CCtx_setParameter(c, ZSTD_c_compressionLevel, level)
        z.ZSTD_CCtx_setParameter(c, ZSTD_c_strategy, ZSTD_btopt)
        if dict_:
            r = z.ZSTD_CCtx_loadDictionary(c, dict_, len(dict_))
            assert not z.ZSTD_isError(r)
        bound = z.ZSTD_compressBound(len(data))
        buf = ctypes.create_string_buffer(bound or 1)
        r = z.ZSTD_compress2(c, buf, bound, data, len(data))
        assert not z.ZSTD_isError(r), "zstd compress error"
        return buf.raw[:r]
    finally:
        z.ZSTD_freeCCtx(c)


def zstd_decompress(data, out_size, dict_=None):
    """returns bytes (exactly what the frame decodes to, at most out_size) or None on error"""
    z = zstd()
    d = z.ZSTD_createDCtx()
    try:
        buf = ctypes.create_string_buffer(out_size or 1)
        r = z.ZSTD_decompress_usingDict(d, buf, out_size, data, len(data), dict_ or None, len(dict_) if dict_ else 0)
        if z.ZSTD_isError(r):
            return None
        return buf.raw[:r]
    finally:
        z.ZSTD_freeDCtx(d)


# ---------------------------------------------------------------- header model
class Chunk:
    __slots__ = ("digest", "udigest", "clen", "ulen", "raw_clen", "raw_ulen", "start")

    def __init__(self, digest, clen, ulen, udigest=None, raw_clen=None, raw_ulen=None):
        self.digest = digest
        self.udigest = udigest
        self.clen = clen
        self.ulen = ulen
        self.raw_clen = raw_clen  # raw byte encodings override the canonical ones when set
        self.raw_ulen = raw_ulen
        self.start = None

    def __repr__(self):
        return "Chunk(%s,%d,%d)" % (self.digest.hex()[:8], self.clen, self.ulen)


class Header:
    """A header description with every field overridable by a raw byte string."""

    def __init__(self, htype=1, ctype=3, flags=0, comp=0, chunks=None, data_digest=None, optelems=None,
                 sig_count=0, detached=False):
        self.htype = htype
        self.ctype = ctype
        self.flags = flags
        self.comp = comp
        self.chunks = chunks or []
        self.data_digest = data_digest
        self.optelems = optelems  # list of (id, data) when flag 2 set
        self.sig_count = sig_count
        self.detached = detached
        self.raw = {}  # field name -> raw bytes: htype, hsize, hdigest, flags, comp, optcount, isize, ctype, count, sigcount, sigs
        self.trailer = b""  # bytes after the signatures inside the header

    def index_body(self):
        out = bytearray()
        out += self.raw.get("ctype", enc_ci(self.ctype))
        out += self.raw.get("count", enc_ci(len(self.chunks)))
        for c in self.chunks:
            out += c.digest
            if self.flags & 4:
                out += c.udigest if c.udigest is not None else bytes(len(c.digest))
            out += c.raw_clen if c.raw_clen is not None else enc_ci(c.clen)
            out += c.raw_ulen if c.raw_ulen is not None else enc_ci(c.ulen)
        return bytes(out)

    def body(self):
        """everything after the lead"""
        hs = HASH_SIZES.get(self.htype, 32)
        out = bytearray()
        dd = self.data_digest if self.data_digest is not None else bytes(hs)
        out += dd
        out += self.raw.get("flags", enc_ci(self.flags))
        out += self.raw.get("comp", enc_ci(self.comp))
        if self.flags & 2 or "optcount" in self.raw or self.optelems is not None:
            oe = self.optelems or []
            out += self.raw.get("optcount", enc_ci(len(oe)))
            for (i, d) in oe:
                if isinstance(i, bytes):
                    out += i
                else:
                    out += enc_ci(i)
                if isinstance(d, tuple):  # (raw size bytes, data)
                    out += d[0] + d[1]
                else:
                    out += enc_ci(len(d)) + d
        ib = self.index_body()
        out += self.raw.get("isize", enc_ci(len(ib)))
        out += ib
        out += self.raw.get("sigcount", enc_ci(self.sig_count))
        out += self.raw.get("sigs", b"")
        out += self.trailer
        return bytes(out)

    def build(self, seal=True, hdigest=None):
        body = self.body()
        lead0 = self.raw.get("htype", enc_ci(self.htype)) + self.raw.get("hsize", enc_ci(len(body)))
        hs = HASH_SIZES.get(self.htype, 32)
        if hdigest is None:
            if seal and self.htype in HASH_SIZES:
                hdigest = digest(self.htype, MAGIC_FILE + lead0 + body)
            else:
                hdigest = bytes(hs)
        hdigest = self.raw.get("hdigest", hdigest)
        magic = MAGIC_HDR if self.detached else MAGIC_FILE
        return magic + lead0 + hdigest + body


class Parsed:
    pass


def parse(buf, strict_flags=True):
    """Parse a header from bytes per the format text.  Returns Parsed or raises Invalid(reason).
    Checks the header checksum.  Integers longer than 10 bytes or >= 2**64 are malformed."""
    p = Parsed()
    if len(buf) < 5:
        raise Invalid("short magic")
    if buf[:5] == MAGIC_FILE:
        p.detached = False
    elif buf[:5] == MAGIC_HDR:
        p.detached = True
    else:
        raise Invalid("bad magic")
    off = 5

    def ci(limit_end):
        nonlocal off
        v, n = dec_ci(buf, off, limit_end - off)
        if n > 10 or v >= 1 << 64:
            raise Invalid("integer too large")
        off += n
        return v

    p.htype = ci(len(buf))
    if p.htype not in HASH_SIZES:
        raise Invalid("unknown overall hash type")
    hs = HASH_SIZES[p.htype]
    p.hsize = ci(len(buf))
    p.digest_loc = off
    if off + hs > len(buf):
        raise Invalid("short lead")
    p.hdigest = bytes(buf[off:off + hs])
    off += hs
    p.lead_len = off
    p.header_len = p.lead_len + p.hsize
    if p.header_len > len(buf):
        raise Invalid("short header")
    end = p.header_len
    calc = digest(p.htype, MAGIC_FILE + bytes(buf[5:p.digest_loc]) + bytes(buf[p.lead_len:end]))
    p.hdigest_ok = (calc == p.hdigest)
    if not p.hdigest_ok:
        raise Invalid("header checksum mismatch")
    if off + hs > end:
        raise Invalid("short preface")
    p.data_digest = bytes(buf[off:off + hs]); off += hs
    p.flags = ci(end)
    if p.flags & ~7:
        raise Invalid("unknown flag")
    p.comp = ci(end)
    p.optelems = []
    if p.flags & 2:
        n = ci(end)
        for _ in range(n):
            i = ci(end)
            sz = ci(end)
            if off + sz > end:
                raise Invalid("optional element past end")
            p.optelems.append((i, bytes(buf[off:off + sz])))
            off += sz
    p.isize = ci(end)
    p.index_off = off
    if off + p.isize > end:
        raise Invalid("index past end")
    iend = off + p.isize
    p.ctype = ci(iend)
    if p.ctype not in HASH_SIZES:
        raise Invalid("unknown chunk hash type")
    cs = HASH_SIZES[p.ctype]
    p.count = ci(iend)
    p.chunks = []
    start = 0
    while off < iend:
        if p.flags & 1:
            ci(iend)  # stream
        if off + cs > iend:
            raise Invalid("digest past index end")
        d = bytes(buf[off:off + cs]); off += cs
        ud = None
        if p.flags & 4:
            if off + cs > iend:
                raise Invalid("digest past index end")
            ud = bytes(buf[off:off + cs]); off += cs
        cl = ci(iend)
        ul = ci(iend)
        c = Chunk(d, cl, ul, ud)
        c.start = start
        start += cl
        p.chunks.append(c)
    if off != iend:
        raise Invalid("index overrun")
    p.count_ok = (p.count == len(p.chunks))
    p.sig_count = ci(end)
    p.sig_end = off
    p.data_len = start
    p.total_len = p.header_len + start
    return p


def extents(p):
    """[(file offset, stored length)] per chunk"""
    return [(p.header_len + c.start, c.clen) for c in p.chunks]


def decode(buf):
    """Full decode of a (non-detached) file: returns content bytes; raises Invalid on any mismatch.
    The data checksum is taken over the chunk extents declared by the index (trailing bytes beyond them are
    not part of the file as far as the format is concerned)."""
    p = parse(buf)
    if not p.count_ok:
        raise Invalid("chunk count mismatch")
    if p.detached:
        raise Invalid("detached header has no body")
    if p.flags & 1:
        raise Invalid("streams unsupported")
    if len(p.chunks) == 0:
        raise Invalid("no dictionary entry")
    if p.total_len > len(buf):
        raise Invalid("body truncated")
    body = bytes(buf[p.header_len:p.total_len])
    if not (p.flags & 4):
        if digest(p.htype, body) != p.data_digest:
            raise Invalid("data checksum mismatch")
    out = bytearray()
    dict_ = None
    for i, c in enumerate(p.chunks):
        stored = body[c.start:c.start + c.clen]
        if c.clen == 0:
            # an empty stored chunk must carry the all-zero digest and no data
            if c.digest != bytes(len(c.digest)) and c.digest != digest(p.ctype, b""):
                raise Invalid("chunk %d: empty chunk with a digest that is neither zero nor that of nothing" % i)
            if c.ulen != 0:
                raise Invalid("chunk %d: empty stored chunk with data length" % i)
            continue
        if digest(p.ctype, stored) != c.digest:
            raise Invalid("chunk %d checksum mismatch" % i)
        if p.comp == 0:
            # stored bytes are the data.  The format text does not say what a reader must do when the declared
            # uncompressed length of an uncompressed chunk differs from its stored length, so no claim is made:
            # the data of the chunk are its stored bytes.
            raw = stored
            if len(raw) != c.ulen:
                raise Unspecified("chunk %d: uncompressed chunk with a different declared length" % i)
        elif p.comp == 2:
            raw = zstd_decompress(stored, c.ulen, dict_ if i > 0 else None)
            if raw is None or len(raw) != c.ulen:
                raise Invalid("chunk %d: zstd error or length mismatch" % i)
        else:
            raise Invalid("unknown compression")
        if i == 0:
            dict_ = raw if len(raw) else None
        else:
            out += raw
    return bytes(out), p


def build_file(pieces, comp=0, htype=1, ctype=3, flags=0, dict_=b"", level=9, detached=False):
    """Reference writer: pieces = list of byte strings, one chunk each. returns (file bytes, Header, body)"""
    chunks = []
    body = bytearray()

    def store(raw, use_dict):
        if comp == 0:
            return raw
        return zstd_compress(raw, level, dict_ if (use_dict and dict_) else None)

    # dictionary entry
    if dict_:
        s = store(dict_, False)
        chunks.append(Chunk(digest(ctype, s), len(s), len(dict_), digest(ctype, dict_)))
        body += s
    else:
        chunks.append(Chunk(bytes(HASH_SIZES[ctype]), 0, 0, bytes(HASH_SIZES[ctype])))
    for raw in pieces:
        s = store(raw, True)
        chunks.append(Chunk(digest(ctype, s), len(s), len(raw), digest(ctype, raw)))
        body += s
    dd = bytes(HASH_SIZES[htype]) if flags & 4 else digest(htype, bytes(body))
    h = Header(htype, ctype, flags, comp, chunks, dd, detached=detached)
    hb = h.build()
    if detached:
        return hb + bytes(body[:chunks[0].clen]), h, bytes(body)
    return hb + bytes(body), h, bytes(body)


def valid_map(p, disk):
    """reference recomputation of per-chunk validity from the bytes actually on disk: list of 1 / -1"""
    res = []
    for (off, ln), c in zip(extents(p), p.chunks):
        if ln == 0:
            res.append(1 if c.digest == bytes(len(c.digest)) else -1)
            continue
        b = disk[off:off + ln]
        if len(b) < ln:
            res.append(-1)
        else:
            res.append(1 if digest(p.ctype, b) == c.digest else -1)
    return res
