"""Shared machinery of the checks: driver invocation, parallel maps, verdicts, known findings, evidence."""
import os, sys, json, time, subprocess, hashlib, tempfile, shutil, itertools, traceback
from concurrent.futures import ProcessPoolExecutor
import multiprocessing as mp

VERIF = os.path.dirname(os.path.dirname(os.path.abspath(__file__)))
sys.path.insert(0, os.path.join(VERIF, "mc"))
import build  # noqa: E402

JOBS = int(os.environ.get("VERIF_JOBS", "16"))
TMP = os.path.join(build.BUILD, "tmp")


class HarnessError(Exception):
    pass


# ------------------------------------------------------------------ driver
def drv_env():
    e = dict(os.environ)
    e["VF_TMP"] = "/dev/shm" if os.path.isdir("/dev/shm") else TMP
    e["TMPDIR"] = e["VF_TMP"]
    e.pop("ASAN_OPTIONS", None)
    e.pop("UBSAN_OPTIONS", None)
    return e


def parse_line(line):
    """'TAG idx k=v k=v' -> (tag, idx, dict)"""
    parts = line.split(" ")
    d = {}
    idx = None
    rest = parts[1:]
    if rest and "=" not in rest[0]:
        try:
            idx = int(rest[0])
        except ValueError:
            idx = rest[0]
        rest = rest[1:]
    for p in rest:
        if "=" in p:
            k, v = p.split("=", 1)
            d[k] = v
    return parts[0], idx, d


class HashedBlob(bytes):
    """a blob the driver reported only as '#sha256:length' because it exceeds VF_BLOB_MAX: compares unequal to every real
    byte string of interest, and carries the length so that a check can say what happened"""
    def __new__(cls, text):
        o = super().__new__(cls, b"\x00<blob too large: " + text.encode() + b">")
        o.declared_len = int(text.rsplit(":", 1)[1])
        o.text = text
        return o


def unhex(s):
    if s is None or s == "-" or s == "":
        return b""
    if s.startswith("#"):
        return HashedBlob(s)
    return bytes.fromhex(s)


class Case:
    __slots__ = ("idx", "recs", "x")

    def __init__(self, idx):
        self.idx = idx
        self.recs = []
        self.x = None

    @property
    def ok(self):
        return self.x is not None and self.x.get("exit") == "0" and self.x.get("sig") == "0" and \
            self.x.get("timeout") == "0" and self.x.get("san", "-") == "-"

    @property
    def done(self):
        """ran to completion (sanitizer reports are judged only by the properties that are about them)"""
        return self.x is not None and self.x.get("exit") == "0" and self.x.get("sig") == "0" and self.x.get("timeout") == "0"

    @property
    def skipped(self):
        """not executed: the runner stopped after repeated hangs in this job"""
        return self.x is not None and self.x.get("timeout") == "2"

    def status(self):
        x = self.x or {}
        return {"exit": int(x.get("exit", -1)), "sig": int(x.get("sig", -1)), "timeout": int(x.get("timeout", 0)),
                "san": unhex(x.get("san", "-")).decode("utf8", "replace")}

    def first(self, tag):
        for t, d in self.recs:
            if t == tag:
                return d
        return None

    def all(self, tag):
        return [d for t, d in self.recs if t == tag]


def drv(cmd, job, variant="asan", timeout=3600, env_extra=None, raw=False):
    """run the driver; returns list of Case in index order"""
    if os.environ.get("VERIF_COV"):
        variant = "cov-bundled" if variant.endswith("bundled") else "cov"
    exe = build.driver(variant)
    env = drv_env()
    if os.environ.get("VERIF_COV"):
        env["LLVM_PROFILE_FILE"] = os.path.join(os.environ["VERIF_COV"], "%s-%%9m.profraw" % variant)
    if env_extra:
        env.update(env_extra)
    r = subprocess.run([exe, cmd], input=job.encode() if isinstance(job, str) else job, stdout=subprocess.PIPE,
                       stderr=subprocess.PIPE, env=env, timeout=timeout)
    out = r.stdout.decode("utf8", "replace")
    if r.returncode != 0 or not out.rstrip().endswith("DONE"):
        raise HarnessError("driver %s failed rc=%s\nstderr: %s\nstdout tail: %s" % (
            cmd, r.returncode, r.stderr.decode("utf8", "replace")[-3000:], out[-1000:]))
    if raw:
        return out
    cases = {}
    order = []
    for line in out.split("\n"):
        if not line or line == "DONE":
            continue
        tag, idx, d = parse_line(line)
        if idx is None:
            continue
        c = cases.get(idx)
        if c is None:
            c = cases[idx] = Case(idx)
            order.append(idx)
        if tag == "X":
            c.x = d
        else:
            c.recs.append((tag, d))
    return [cases[i] for i in order]


_pool = None


def pool():
    global _pool
    if _pool is None:
        _pool = ProcessPoolExecutor(JOBS, mp_context=mp.get_context("fork"))
    return _pool


def pmap(fn, items, chunksize=1):
    items = list(items)
    if JOBS <= 1 or len(items) <= 1:
        return [fn(i) for i in items]
    return list(pool().map(fn, items, chunksize=chunksize))


def chunks(seq, n):
    seq = list(seq)
    for i in range(0, len(seq), n):
        yield seq[i:i + n]


# ------------------------------------------------------------------ known findings
def load_findings():
    p = os.path.join(VERIF, "known_findings.json")
    if not os.path.exists(p):
        return []
    return json.load(open(p))


def sig_match(pattern, sig):
    """every key of the recorded pattern must be present and equal in the observed signature"""
    for k, v in pattern.items():
        if k not in sig:
            return False
        if isinstance(v, list):
            if sig[k] not in v:
                return False
        elif sig[k] != v:
            return False
    return True


# ------------------------------------------------------------------ run context
class Ctx:
    def __init__(self, pid, tier, module):
        self.pid = pid
        # A module whose former thorough bound costs only seconds sets PROMOTE = True: its quick tier then runs that bound
        # (ctx.tier == "thorough", ctx.deep False) and its thorough tier a deeper one (ctx.deep True).  tier_label is what
        # was asked for on the command line and what the evidence reports.
        self.tier_label = tier
        self.deep = tier == "thorough"
        self.tier = "thorough" if getattr(module, "PROMOTE", False) else tier
        self.module = module
        self.seed = int(os.environ.get("VERIF_SEED", "0") or 0)
        self.t0 = time.time()
        budget = {"quick": 150, "thorough": 1500}[tier]
        budget = float(os.environ.get("VERIF_BUDGET_S", budget))
        self.deadline = self.t0 + budget
        self.states = 0
        self.transitions = 0
        self.evaluations = 0
        self.nontrivial = 0
        self.samples = []
        self.rule = ""
        self.exhaustive = True
        self.caps = []
        self.bounds = {}
        self.assumptions = []
        self.extra = {}
        self.new_violations = []
        self.known_hits = {}
        self.findings = [f for f in load_findings() if f.get("property") == pid]
        self.outcomes = set()
        self._seen_sigs = {}
        self.nreplay = 0

    # -- budget
    def expired(self):
        return time.time() > self.deadline

    def cap(self, what):
        self.exhaustive = False
        self.caps.append(what)
        print("[%s] cap: %s" % (self.pid, what), flush=True)

    def sample(self, s, limit=6):
        if len(self.samples) < limit:
            self.samples.append(s)

    def note(self, msg):
        print("[%s] %s" % (self.pid, msg), flush=True)

    # -- verdicts
    def violation(self, sig, what, case):
        """sig: dict naming the failing input class; case: JSON-serialisable replay case"""
        key = json.dumps(sig, sort_keys=True)
        for f in self.findings:
            if f.get("status") == "known" and sig_match(f["signature"], sig):
                fid = json.dumps(f["signature"], sort_keys=True)
                if fid not in self.known_hits:
                    self.known_hits[fid] = (f, what)
                    print("KNOWN-FINDING: property=%s %s" % (self.pid, f.get("what", what)), flush=True)
                return "known"
        if key in self._seen_sigs:
            self._seen_sigs[key] += 1
            return "dup"
        self._seen_sigs[key] = 1
        # replay before report
        confirmed = True
        detail = None
        if hasattr(self.module, "replay") and os.environ.get("VERIF_NO_CONFIRM") != "1":
            try:
                res = self.module.replay(case, quiet=True)
            except HarnessError:
                raise
            if res is None or not res.get("violated"):
                raise HarnessError("nondeterministic verdict: case %s violated in exploration (%s) but not when replayed alone (%s)"
                                   % (json.dumps(case)[:400], str(what)[:1500], res))
            detail = res.get("detail")
        rdir = os.environ.get("VERIF_REPLAY_DIR", "replays")
        os.makedirs(os.path.join(VERIF, rdir), exist_ok=True)
        self.nreplay += 1
        path = os.path.join(rdir, "%s-%d.json" % (self.pid, self.nreplay))
        json.dump({"property": self.pid, "signature": sig, "what": what, "case": case, "detail": detail},
                  open(os.path.join(VERIF, path), "w"), indent=1)
        self.new_violations.append((sig, what, path))
        print("VIOLATION property=%s replay=%s" % (self.pid, path), flush=True)
        print("  signature: %s\n  what: %s" % (key, what), flush=True)
        return "new"

    # -- evidence
    def finish(self):
        wall = time.time() - self.t0
        ev = {
            "property_id": self.pid,
            "tier": self.tier_label,
            "seed": self.seed,
            "level": "model_checking",
            "coverage": {
                "states": int(self.states),
                "transitions": int(self.transitions),
                "traces_validated_against_impl": int(self.evaluations),
                "evaluations": int(self.evaluations),
                "distinct_nontrivial": int(self.nontrivial),
                "rule": self.rule,
                "samples": self.samples or ["(none)"],
                "exhaustive": bool(self.exhaustive),
                "bounds": self.bounds,
                "caps_hit": self.caps,
                "distinct_outcomes": len(self.outcomes),
                "known_findings_reproduced": [f.get("what") for f, _ in self.known_hits.values()],
            },
            "assumptions": self.assumptions,
            "wall_s": round(wall, 2),
            "violations": len(self.new_violations),
        }
        ev["coverage"].update(self.extra)
        edir = os.path.join(VERIF, os.environ.get("VERIF_EVIDENCE_DIR", "evidence"))
        os.makedirs(edir, exist_ok=True)
        json.dump(ev, open(os.path.join(edir, self.pid + ".json"), "w"), indent=1)
        print("[%s] tier=%s states=%d transitions=%d executions=%d nontrivial=%d outcomes=%d exhaustive=%s wall=%.1fs violations=%d known=%d"
              % (self.pid, self.tier_label, self.states, self.transitions, self.evaluations, self.nontrivial, len(self.outcomes),
                 self.exhaustive, wall, len(self.new_violations), len(self.known_hits)), flush=True)
        return 1 if self.new_violations else 0


# ------------------------------------------------------------------ shared small-scope universe
def prng_bytes(n, seed):
    out = bytearray()
    c = 0
    while len(out) < n:
        out += hashlib.sha256(b"vf-prng-%d-%d" % (seed, c)).digest()
        c += 1
    return bytes(out[:n])


def blocks(seed):
    b = {
        "a": b"The quick brown fox 23b",
        "b": b"jumps over the lazy dog, 31 byt",
        "c": b"\0\r\n\r\n--x\r\n\0\xff--ab\r",
        "d": prng_bytes(29, seed),
        "e": bytes([0x21 + seed % 90]),     # one byte: a chunk whose extent starts and ends at the same offset
    }
    assert [len(b[k]) for k in "abcd"] == [23, 31, 17, 29], [len(b[k]) for k in "abcd"]
    return b


def words(maxlen, alphabet="abcd", minlen=0):
    for n in range(minlen, maxlen + 1):
        for w in itertools.product(alphabet, repeat=n):
            yield "".join(w)
