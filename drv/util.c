#include "drv.h"
#include <stdarg.h>
#include <sys/mman.h>
#include <sys/stat.h>

int __llvm_profile_write_file(void) __attribute__((weak));
void vf_cov_flush(void) { if(__llvm_profile_write_file) __llvm_profile_write_file(); }

void die(const char *fmt, ...) {
    va_list ap;
    va_start(ap, fmt);
    fprintf(stderr, "drv: harness error: ");
    vfprintf(stderr, fmt, ap);
    fprintf(stderr, "\n");
    va_end(ap);
    _exit(3);
}

blob blob_new(size_t n) {
    blob b;
    b.p = calloc(n ? n : 1, 1);
    if(!b.p) die("oom");
    b.n = n;
    return b;
}

blob blob_dup(const void *p, size_t n) {
    blob b = blob_new(n);
    if(n) memcpy(b.p, p, n);
    return b;
}

void blob_free(blob *b) {
    free(b->p);
    b->p = NULL;
    b->n = 0;
}

blob fd_contents(int fd) {
    struct stat st;
    if(fstat(fd, &st) != 0) die("fstat: %s", strerror(errno));
    blob b = blob_new(st.st_size);
    size_t got = 0;
    while(got < b.n) {
        ssize_t r = pread(fd, b.p + got, b.n - got, got);
        if(r <= 0) break;
        got += r;
    }
    b.n = got;
    return b;
}

blob blob_from_file(const char *path) {
    int fd = open(path, O_RDONLY);
    if(fd < 0) die("open %s: %s", path, strerror(errno));
    blob b = fd_contents(fd);
    real_close(fd);
    return b;
}

static int hexv(int c) {
    if(c >= '0' && c <= '9') return c - '0';
    if(c >= 'a' && c <= 'f') return c - 'a' + 10;
    if(c >= 'A' && c <= 'F') return c - 'A' + 10;
    return -1;
}

blob blob_from_hex(const char *hex) {
    size_t n = strlen(hex);
    if(n % 2) die("odd hex");
    blob b = blob_new(n / 2);
    for(size_t i = 0; i < n / 2; i++) {
        int a = hexv(hex[2 * i]), c = hexv(hex[2 * i + 1]);
        if(a < 0 || c < 0) die("bad hex");
        b.p[i] = a * 16 + c;
    }
    return b;
}

blob blob_arg(const char *tok) {
    if(!tok || strcmp(tok, "-") == 0) return blob_new(0);
    if(tok[0] == '@') return blob_from_file(tok + 1);
    return blob_from_hex(tok);
}

void put_hex(FILE *o, const void *p, size_t n) {
    static const char d[] = "0123456789abcdef";
    const unsigned char *c = p;
    if(n == 0) { fputc('-', o); return; }
    for(size_t i = 0; i < n; i++) {
        fputc(d[c[i] >> 4], o);
        fputc(d[c[i] & 15], o);
    }
}

/* small private SHA-256 (content identity of large observations only; never used as an oracle) */
static uint32_t ror(uint32_t x, int n) { return (x >> n) | (x << (32 - n)); }
static void vf_sha256(const unsigned char *p, size_t n, unsigned char md[32]) {
    static const uint32_t K[64] = {
        0x428a2f98,0x71374491,0xb5c0fbcf,0xe9b5dba5,0x3956c25b,0x59f111f1,0x923f82a4,0xab1c5ed5,0xd807aa98,0x12835b01,
        0x243185be,0x550c7dc3,0x72be5d74,0x80deb1fe,0x9bdc06a7,0xc19bf174,0xe49b69c1,0xefbe4786,0x0fc19dc6,0x240ca1cc,
        0x2de92c6f,0x4a7484aa,0x5cb0a9dc,0x76f988da,0x983e5152,0xa831c66d,0xb00327c8,0xbf597fc7,0xc6e00bf3,0xd5a79147,
        0x06ca6351,0x14292967,0x27b70a85,0x2e1b2138,0x4d2c6dfc,0x53380d13,0x650a7354,0x766a0abb,0x81c2c92e,0x92722c85,
        0xa2bfe8a1,0xa81a664b,0xc24b8b70,0xc76c51a3,0xd192e819,0xd6990624,0xf40e3585,0x106aa070,0x19a4c116,0x1e376c08,
        0x2748774c,0x34b0bcb5,0x391c0cb3,0x4ed8aa4a,0x5b9cca4f,0x682e6ff3,0x748f82ee,0x78a5636f,0x84c87814,0x8cc70208,
        0x90befffa,0xa4506ceb,0xbef9a3f7,0xc67178f2};
    uint32_t h[8] = {0x6a09e667,0xbb67ae85,0x3c6ef372,0xa54ff53a,0x510e527f,0x9b05688c,0x1f83d9ab,0x5be0cd19};
    size_t total = n + 9;
    total = (total + 63) / 64 * 64;
    for(size_t off = 0; off < total; off += 64) {
        unsigned char blk[64];
        for(int i = 0; i < 64; i++) {
            size_t q = off + i;
            if(q < n) blk[i] = p[q];
            else if(q == n) blk[i] = 0x80;
            else if(q >= total - 8) blk[i] = (unsigned char)(((uint64_t)n * 8) >> (8 * (total - 1 - q)));
            else blk[i] = 0;
        }
        uint32_t w[64];
        for(int i = 0; i < 16; i++) w[i] = (uint32_t)blk[4*i] << 24 | blk[4*i+1] << 16 | blk[4*i+2] << 8 | blk[4*i+3];
        for(int i = 16; i < 64; i++) {
            uint32_t s0 = ror(w[i-15], 7) ^ ror(w[i-15], 18) ^ (w[i-15] >> 3);
            uint32_t s1 = ror(w[i-2], 17) ^ ror(w[i-2], 19) ^ (w[i-2] >> 10);
            w[i] = w[i-16] + s0 + w[i-7] + s1;
        }
        uint32_t a=h[0],b=h[1],c=h[2],d=h[3],e=h[4],f=h[5],g=h[6],hh=h[7];
        for(int i = 0; i < 64; i++) {
            uint32_t S1 = ror(e,6)^ror(e,11)^ror(e,25), ch = (e&f)^(~e&g), t1 = hh+S1+ch+K[i]+w[i];
            uint32_t S0 = ror(a,2)^ror(a,13)^ror(a,22), mj = (a&b)^(a&c)^(b&c), t2 = S0+mj;
            hh=g; g=f; f=e; e=d+t1; d=c; c=b; b=a; a=t1+t2;
        }
        h[0]+=a;h[1]+=b;h[2]+=c;h[3]+=d;h[4]+=e;h[5]+=f;h[6]+=g;h[7]+=hh;
    }
    for(int i = 0; i < 8; i++) { md[4*i]=h[i]>>24; md[4*i+1]=h[i]>>16; md[4*i+2]=h[i]>>8; md[4*i+3]=h[i]; }
}

void sha256_hex(const void *p, size_t n, char out[65]) {
    unsigned char md[32];
    vf_sha256(p, n, md);
    for(int i = 0; i < 32; i++) sprintf(out + 2 * i, "%02x", md[i]);
    out[64] = 0;
}

void put_blob(FILE *o, const char *key, const void *p, size_t n) {
    fprintf(o, " %s=", key);
    static long maxb = -1;
    if(maxb < 0) { const char *e = getenv("VF_BLOB_MAX"); maxb = e ? atol(e) : 4096; }
    if(n > (size_t)maxb) {
        char h[65];
        sha256_hex(p, n, h);
        fprintf(o, "#%s:%zu", h, n);
    } else {
        put_hex(o, p, n);
    }
}

int mem_fd(const char *name) {
    int fd = memfd_create(name, 0);
    if(fd < 0) die("memfd_create: %s", strerror(errno));
    return fd;
}

int tmp_file(const char *tag) {
    const char *dir = getenv("VF_TMP");
    if(!dir) dir = "/dev/shm";
    char path[4096];
    snprintf(path, sizeof path, "%s/vf-%s-XXXXXX", dir, tag);
    extern int __real_mkstemp64(char *);
    int fd = mkostemp(path, 0);
    if(fd < 0) die("mkstemp %s: %s", path, strerror(errno));
    extern int __real_unlink(const char *);
    __real_unlink(path);
    return fd;
}

int tmp_file_with(const char *tag, const void *p, size_t n) {
    int fd = tmp_file(tag);
    size_t off = 0;
    while(off < n) {
        ssize_t w = pwrite(fd, (const char *)p + off, n - off, off);
        if(w <= 0) die("pwrite: %s", strerror(errno));
        off += w;
    }
    real_lseek(fd, 0, SEEK_SET);
    return fd;
}

char **split_ws(char *line, int *n) {
    int cap = 16, k = 0;
    char **t = malloc(cap * sizeof *t);
    char *s = line;
    while(*s) {
        while(*s == ' ' || *s == '\t') s++;
        if(!*s) break;
        if(k + 1 >= cap) { cap *= 2; t = realloc(t, cap * sizeof *t); }
        t[k++] = s;
        while(*s && *s != ' ' && *s != '\t') s++;
        if(*s) *s++ = 0;
    }
    t[k] = NULL;
    *n = k;
    return t;
}

const char *kv(char **tok, int n, const char *key, const char *dflt) {
    size_t l = strlen(key);
    for(int i = 0; i < n; i++)
        if(strncmp(tok[i], key, l) == 0 && tok[i][l] == '=') return tok[i] + l + 1;
    return dflt;
}

long long kvi(char **tok, int n, const char *key, long long dflt) {
    const char *v = kv(tok, n, key, NULL);
    if(!v) return dflt;
    return strtoll(v, NULL, 0);
}

char *read_line(FILE *f) {
    char *line = NULL;
    size_t cap = 0;
    ssize_t r = getline(&line, &cap, f);
    if(r < 0) { free(line); return NULL; }
    while(r > 0 && (line[r - 1] == '\n' || line[r - 1] == '\r')) line[--r] = 0;
    return line;
}

int *parse_int_list(const char *s, int *n) {
    int cap = 8, k = 0;
    int *v = malloc(cap * sizeof *v);
    while(*s) {
        char *e;
        long x = strtol(s, &e, 0);
        if(e == s) break;
        if(k >= cap) { cap *= 2; v = realloc(v, cap * sizeof *v); }
        v[k++] = (int)x;
        s = e;
        if(*s == ',') s++;
    }
    *n = k;
    return v;
}
