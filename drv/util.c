#include "drv.h"
#include <stdarg.h>
#include <sys/mman.h>
#include <sys/stat.h>
#include <openssl/sha.h>

void die(const char *fmt, ...) {
    va_list ap;
    va_start(ap, fmt);
    fprintf(stderr, "drv: harness error: ");
    vfprintf(stderr, fmt, ap);
    fprintf(stderr, "\n");
    va_end(ap);
    _exit(3);
}

blob blob_new(size_t n) {
    blob b;
    b.p = calloc(n ? n : 1, 1);
    if(!b.p) die("oom");
    b.n = n;
    return b;
}

blob blob_dup(const void *p, size_t n) {
    blob b = blob_new(n);
    if(n) memcpy(b.p, p, n);
    return b;
}

void blob_free(blob *b) {
    free(b->p);
    b->p = NULL;
    b->n = 0;
}

blob fd_contents(int fd) {
    struct stat st;
    if(fstat(fd, &st) != 0) die("fstat: %s", strerror(errno));
    blob b = blob_new(st.st_size);
    size_t got = 0;
    while(got < b.n) {
        ssize_t r = pread(fd, b.p + got, b.n - got, got);
        if(r <= 0) break;
        got += r;
    }
    b.n = got;
    return b;
}

blob blob_from_file(const char *path) {
    int fd = open(path, O_RDONLY);
    if(fd < 0) die("open %s: %s", path, strerror(errno));
    blob b = fd_contents(fd);
    real_close(fd);
    return b;
}

static int hexv(int c) {
    if(c >= '0' && c <= '9') return c - '0';
    if(c >= 'a' && c <= 'f') return c - 'a' + 10;
    if(c >= 'A' && c <= 'F') return c - 'A' + 10;
    return -1;
}

blob blob_from_hex(const char *hex) {
    size_t n = strlen(hex);
    if(n % 2) die("odd hex");
    blob b = blob_new(n / 2);
    for(size_t i = 0; i < n / 2; i++) {
        int a = hexv(hex[2 * i]), c = hexv(hex[2 * i + 1]);
        if(a < 0 || c < 0) die("bad hex");
        b.p[i] = a * 16 + c;
    }
    return b;
}

blob blob_arg(const char *tok) {
    if(!tok || strcmp(tok, "-") == 0) return blob_new(0);
    if(tok[0] == '@') return blob_from_file(tok + 1);
    return blob_from_hex(tok);
}

void put_hex(FILE *o, const void *p, size_t n) {
    static const char d[] = "0123456789abcdef";
    const unsigned char *c = p;
    if(n == 0) { fputc('-', o); return; }
    for(size_t i = 0; i < n; i++) {
        fputc(d[c[i] >> 4], o);
        fputc(d[c[i] & 15], o);
    }
}

void sha256_hex(const void *p, size_t n, char out[65]) {
    unsigned char md[32];
    SHA256(p, n, md);
    for(int i = 0; i < 32; i++) sprintf(out + 2 * i, "%02x", md[i]);
    out[64] = 0;
}

void put_blob(FILE *o, const char *key, const void *p, size_t n) {
    fprintf(o, " %s=", key);
    if(n > 4096) {
        char h[65];
        sha256_hex(p, n, h);
        fprintf(o, "#%s:%zu", h, n);
    } else {
        put_hex(o, p, n);
    }
}

int mem_fd(const char *name) {
    int fd = memfd_create(name, 0);
    if(fd < 0) die("memfd_create: %s", strerror(errno));
    return fd;
}

int tmp_file(const char *tag) {
    const char *dir = getenv("VF_TMP");
    if(!dir) dir = "/dev/shm";
    char path[4096];
    snprintf(path, sizeof path, "%s/vf-%s-XXXXXX", dir, tag);
    extern int __real_mkstemp64(char *);
    int fd = mkostemp(path, 0);
    if(fd < 0) die("mkstemp %s: %s", path, strerror(errno));
    extern int __real_unlink(const char *);
    __real_unlink(path);
    return fd;
}

int tmp_file_with(const char *tag, const void *p, size_t n) {
    int fd = tmp_file(tag);
    size_t off = 0;
    while(off < n) {
        ssize_t w = pwrite(fd, (const char *)p + off, n - off, off);
        if(w <= 0) die("pwrite: %s", strerror(errno));
        off += w;
    }
    real_lseek(fd, 0, SEEK_SET);
    return fd;
}

char **split_ws(char *line, int *n) {
    int cap = 16, k = 0;
    char **t = malloc(cap * sizeof *t);
    char *s = line;
    while(*s) {
        while(*s == ' ' || *s == '\t') s++;
        if(!*s) break;
        if(k + 1 >= cap) { cap *= 2; t = realloc(t, cap * sizeof *t); }
        t[k++] = s;
        while(*s && *s != ' ' && *s != '\t') s++;
        if(*s) *s++ = 0;
    }
    t[k] = NULL;
    *n = k;
    return t;
}

const char *kv(char **tok, int n, const char *key, const char *dflt) {
    size_t l = strlen(key);
    for(int i = 0; i < n; i++)
        if(strncmp(tok[i], key, l) == 0 && tok[i][l] == '=') return tok[i] + l + 1;
    return dflt;
}

long long kvi(char **tok, int n, const char *key, long long dflt) {
    const char *v = kv(tok, n, key, NULL);
    if(!v) return dflt;
    return strtoll(v, NULL, 0);
}

char *read_line(FILE *f) {
    char *line = NULL;
    size_t cap = 0;
    ssize_t r = getline(&line, &cap, f);
    if(r < 0) { free(line); return NULL; }
    while(r > 0 && (line[r - 1] == '\n' || line[r - 1] == '\r')) line[--r] = 0;
    return line;
}

int *parse_int_list(const char *s, int *n) {
    int cap = 8, k = 0;
    int *v = malloc(cap * sizeof *v);
    while(*s) {
        char *e;
        long x = strtol(s, &e, 0);
        if(e == s) break;
        if(k >= cap) { cap *= 2; v = realloc(v, cap * sizeof *v); }
        v[k++] = (int)x;
        s = e;
        if(*s == ',') s++;
    }
    *n = k;
    return v;
}
