/* cooperative preemption-bounded scheduler (filled in by the C19 machinery) */
#include "drv.h"
int sched_active = 0;
__attribute__((weak)) void sched_point(void) {}
