/* Cooperative, preemption-bounded thread scheduler.
 *
 * Threads registered with sched_run() execute one at a time.  Every wrapped system call (drv/env.c) and the start of
 * every thread is a scheduling point: the thread parks there and the controller - the thread that called sched_run() -
 * picks who continues.  Choices are replayed from a prefix and default to "keep running the current thread" afterwards,
 * so that a schedule is fully described by the list of non-default choices.  The enabled set at a point is listed in
 * canonical order: the running thread first if it is still enabled, then ascending ids.
 *
 * This translation unit is compiled WITHOUT -fsanitize=thread in the tsan variant and is not used by the free-running
 * race pass at all (the semaphore hand-offs would be happens-before edges that hide races from the detector). */
#include "drv.h"
#include "vfsched.h"
#include <pthread.h>
#include <semaphore.h>

int sched_active = 0;

enum { ST_PARKED = 1, ST_RUNNING = 2, ST_DONE = 3 };
static int nthr;
static sem_t go[SCHED_MAXT], ctl;
static volatile int state[SCHED_MAXT];
static __thread int my_id = -1;
static sched_body bodies[SCHED_MAXT];
static void *args[SCHED_MAXT];

void sched_point(void) {
    if(!sched_active || my_id < 0) return;
    state[my_id] = ST_PARKED;
    sem_post(&ctl);
    sem_wait(&go[my_id]);
    state[my_id] = ST_RUNNING;
}

static void *tramp(void *v) {
    my_id = (int)(long)v;
    /* thread start is a scheduling point */
    sem_wait(&go[my_id]);
    state[my_id] = ST_RUNNING;
    bodies[my_id](args[my_id]);
    state[my_id] = ST_DONE;
    int me = my_id;
    my_id = -1;
    (void)me;
    sem_post(&ctl);
    return NULL;
}

/* runs the bodies under the schedule; fills tr.  Returns 0, or -1 when the prefix did not replay (harness error) */
int sched_run(int n, sched_body *b, void **a, const unsigned char *prefix, int nprefix, sched_trace *tr) {
    if(n > SCHED_MAXT) die("too many threads");
    nthr = n;
    memset(tr, 0, sizeof *tr);
    sem_init(&ctl, 0, 0);
    pthread_t th[SCHED_MAXT];
    for(int i = 0; i < n; i++) {
        sem_init(&go[i], 0, 0);
        bodies[i] = b[i];
        args[i] = a[i];
        state[i] = ST_PARKED;
    }
    sched_active = 1;
    for(int i = 0; i < n; i++)
        if(pthread_create(&th[i], NULL, tramp, (void *)(long)i)) die("pthread_create");
    int cur = -1, rc = 0;
    for(;;) {
        int en[SCHED_MAXT], ne = 0;
        if(cur >= 0 && state[cur] != ST_DONE) en[ne++] = cur;
        for(int i = 0; i < n; i++)
            if(state[i] != ST_DONE && i != cur) en[ne++] = i;
        if(ne == 0) break;
        int p = tr->npoints;
        if(p >= SCHED_MAXPOINTS) die("schedule too long");
        int choice = p < nprefix ? prefix[p] : 0;
        if(choice >= ne) { rc = -1; choice = 0; }
        tr->nenabled[p] = (unsigned char)ne;
        tr->cur_enabled[p] = (unsigned char)(cur >= 0 && state[cur] != ST_DONE);
        tr->choice[p] = (unsigned char)choice;
        tr->who[p] = (unsigned char)en[choice];
        tr->npoints++;
        cur = en[choice];
        sem_post(&go[cur]);
        sem_wait(&ctl);     /* until cur parks at its next point or finishes */
    }
    for(int i = 0; i < n; i++) pthread_join(th[i], NULL);
    sched_active = 0;
    return rc;
}

