/* sched: independent contexts used from different threads (C19)
 *
 * job lines:
 *   thread <i> scen=<copy|write|read|validate|feed> a=<blob> b=<blob> c=<blob> mark=<..>   thread i's scenario and data
 *       copy:     a = source file, b = complete new file (target gets b's header, chunks missing)
 *       write:    a = content (zstd, automatic chunking is off: one end-chunk in the middle)
 *       read:     a = file
 *       validate: a = file
 *       feed:     b = complete new file, a = response body (plain) for the request of all chunks
 *       feedmp:   b = initial target (header of the new file, some chunks present), c = Content-Type header line of a
 *                 multipart/byteranges response, a = its body; header callback, then the body in three pieces
 *       life:     a = file; the whole life of a reading context inside the region: create, open, every getter, read to the
 *                 end, close, free
 *       writez:   a = content, c = dictionary; the whole life of a writing context: create, options (zstd, dictionary,
 *                 digest types), write / end-chunk / write, close, free
 *       nowrite:  a = content; a writing context that is switched to ZCK_NO_WRITE after zck_init_write (the library closes
 *                 its temporary file), then written to, closed and freed - descriptor numbers are process-wide state
 *       writefail: a = content; a writing context whose output is a small non-blocking pipe nobody drains: the header fits,
 *                 copying the chunks at close fails; then zck_free - the failure path owns descriptors too
 *       misc:     a = file, b = another file: name tables, range rendering, error strings, chunk requests, matching
 *   explore threads=<i,j[,k]> bound=<preemptions> [maxexec=<n>]      one case: all schedules within the bound
 *   free threads=<i,j[,k]> reps=<n>                                    one case: free-running (race pass, tsan variant)
 * context set-up (opening files, reading headers) happens before the scheduled region; the scheduled region is the
 * operation itself.  Oracle inside the driver: each thread's observation (return values, flags, SHA-256 of its output
 * file / returned content) must equal the observation of the same body run alone.
 * output: E <idx> execs= maxpoints= bound= complete=<0|1> distinct=<distinct observations> bad=<violating schedules>
 *         B <idx> sched=<who,who,...> thread=<i> obs=<..> alone=<..>          (first violating schedules)
 */
#include "drv.h"
#include "vfsched.h"
#include <pthread.h>
#include <fcntl.h>
#include <stdarg.h>
#include <sys/wait.h>
#include <sys/mman.h>

typedef struct { char scen[16]; blob a, b, c; } tspec;
static tspec specs[8];

typedef struct {
    tspec *s;
    /* prepared state */
    int fd1, fd2;
    zckCtx *z1, *z2;
    zckDL *dl;
    zckRange *range;
    char obs[400];
} tstate;

static void prep(tstate *t) {
    tspec *s = t->s;
    t->fd1 = t->fd2 = -1;
    if(!strcmp(s->scen, "copy")) {
        t->fd1 = tmp_file_with("qs", s->a.p, s->a.n);
        t->z1 = zck_create();
        if(!zck_init_read(t->z1, t->fd1)) die("sched: source does not open");
        /* target: header of b, chunks missing (0xAA) */
        int bfd = tmp_file_with("qb", s->b.p, s->b.n);
        zckCtx *b = zck_create();
        if(!zck_init_read(b, bfd)) die("sched: b does not open");
        size_t hl = zck_get_header_length(b);
        zck_free(&b);
        real_close(bfd);
        blob t0 = blob_new(s->b.n);
        memset(t0.p, 0xAA, t0.n);
        memcpy(t0.p, s->b.p, hl);
        t->fd2 = tmp_file_with("qt", t0.p, t0.n);
        blob_free(&t0);
        t->z2 = zck_create();
        if(!zck_init_read(t->z2, t->fd2)) die("sched: target does not open");
    } else if(!strcmp(s->scen, "write")) {
        t->fd1 = tmp_file("qw");
        t->z1 = zck_create();
        if(!zck_init_write(t->z1, t->fd1)) die("sched: init write");
        if(!zck_set_ioption(t->z1, ZCK_MANUAL_CHUNK, 1)) die("sched: manual");
    } else if(!strcmp(s->scen, "read") || !strcmp(s->scen, "validate")) {
        t->fd1 = tmp_file_with("qr", s->a.p, s->a.n);
        t->z1 = zck_create();
        if(!zck_init_read(t->z1, t->fd1)) die("sched: file does not open");
    } else if(!strcmp(s->scen, "feed")) {
        int bfd = tmp_file_with("qb", s->b.p, s->b.n);
        zckCtx *b = zck_create();
        if(!zck_init_read(b, bfd)) die("sched: b does not open");
        size_t hl = zck_get_header_length(b);
        zck_free(&b);
        real_close(bfd);
        blob t0 = blob_new(s->b.n);
        memset(t0.p, 0xAA, t0.n);
        memcpy(t0.p, s->b.p, hl);
        t->fd1 = tmp_file_with("qf", t0.p, t0.n);
        blob_free(&t0);
        t->z1 = zck_create();
        if(!zck_init_read(t->z1, t->fd1)) die("sched: target does not open");
        zck_find_valid_chunks(t->z1);
        zck_reset_failed_chunks(t->z1);
        t->range = zck_get_missing_range(t->z1, -1);
        t->dl = zck_dl_init(t->z1);
        zck_dl_set_range(t->dl, t->range);
    } else if(!strcmp(s->scen, "feedmp")) {
        t->fd1 = tmp_file_with("qm", s->b.p, s->b.n);
        t->z1 = zck_create();
        if(!zck_init_read(t->z1, t->fd1)) die("sched: target does not open");
        zck_find_valid_chunks(t->z1);
        zck_reset_failed_chunks(t->z1);
        t->range = zck_get_missing_range(t->z1, -1);
        t->dl = zck_dl_init(t->z1);
        zck_dl_set_range(t->dl, t->range);
    } else if(!strcmp(s->scen, "life") || !strcmp(s->scen, "misc")) {
        t->fd1 = tmp_file_with("ql", s->a.p, s->a.n);
        if(s->b.n) t->fd2 = tmp_file_with("qL", s->b.p, s->b.n);
    } else if(!strcmp(s->scen, "bigrange")) {
        /* a: on-disk state of a file with thousands of one-byte chunks, every other one damaged: the rendered request is
         * longer than the renderer's initial buffer.  Opening and scanning happen here, the region only builds and renders */
        t->fd1 = tmp_file_with("qg", s->a.p, s->a.n);
        t->z1 = zck_create();
        if(!zck_init_read(t->z1, t->fd1)) die("sched: bigrange file does not open");
        zck_find_valid_chunks(t->z1);
        zck_reset_failed_chunks(t->z1);
        zck_clear_error(t->z1);
    } else if(!strcmp(s->scen, "writefail")) {
        int pf[2];
        if(pipe2(pf, O_NONBLOCK) != 0) die("sched: pipe");
        fcntl(pf[1], F_SETPIPE_SZ, 4096);
        /* keep both ends away from the low numbers the library's own files will get */
        t->fd2 = fcntl(pf[0], F_DUPFD, 40); real_close(pf[0]);
        t->fd1 = fcntl(pf[1], F_DUPFD, 40); real_close(pf[1]);
    } else if(!strcmp(s->scen, "writez") || !strcmp(s->scen, "nowrite")) {
        t->fd1 = tmp_file("qz");
    } else die("sched: unknown scenario %s", s->scen);
}

/* running digest of everything a scenario observes */
typedef struct { char buf[8192]; size_t n; } obsacc;
static void oa(obsacc *o, const char *fmt, ...) {
    va_list ap;
    va_start(ap, fmt);
    if(o->n < sizeof o->buf) {
        int w = vsnprintf(o->buf + o->n, sizeof o->buf - o->n, fmt, ap);
        if(w > 0) o->n += (size_t)w < sizeof o->buf - o->n ? (size_t)w : sizeof o->buf - o->n - 1;
    }
    va_end(ap);
}

static void flags_of(zckCtx *z, char *dst) {
    int n = 0;
    zck_clear_error(z);
    for(zckChunk *ch = zck_get_first_chunk(z); ch && n < 30; ch = zck_get_next_chunk(ch)) {
        int v = zck_get_chunk_valid(ch);
        dst[n++] = v == 1 ? '+' : v == 0 ? '0' : v == -1 ? '!' : '?';
    }
    dst[n] = 0;
}

/* the scheduled region */
static void body(void *v) {
    tstate *t = v;
    tspec *s = t->s;
    char h[65], fl[40] = "";
    if(!strcmp(s->scen, "copy")) {
        int r = zck_copy_chunks(t->z1, t->z2);
        flags_of(t->z2, fl);
        blob f = fd_contents(t->fd2);
        sha256_hex(f.p, f.n, h);
        blob_free(&f);
        snprintf(t->obs, sizeof t->obs, "copy:ret=%d:flags=%s:target=%.16s", r, fl, h);
    } else if(!strcmp(s->scen, "write")) {
        size_t half = s->a.n / 2;
        ssize_t r1 = zck_write(t->z1, (char *)s->a.p, half);
        ssize_t r2 = zck_end_chunk(t->z1);
        ssize_t r3 = zck_write(t->z1, (char *)s->a.p + half, s->a.n - half);
        int cl = zck_close(t->z1);
        blob f = fd_contents(t->fd1);
        sha256_hex(f.p, f.n, h);
        blob_free(&f);
        snprintf(t->obs, sizeof t->obs, "write:rets=%zd,%zd,%zd:close=%d:file=%.16s", r1, r2, r3, cl, h);
    } else if(!strcmp(s->scen, "read")) {
        char buf[64];
        blob acc = blob_new(s->a.n * 8 + 4096);
        size_t n = 0;
        ssize_t r;
        while((r = zck_read(t->z1, buf, 7)) > 0 && n + r <= acc.n) { memcpy(acc.p + n, buf, r); n += r; }
        int cl = zck_close(t->z1);
        sha256_hex(acc.p, n, h);
        blob_free(&acc);
        snprintf(t->obs, sizeof t->obs, "read:last=%zd:close=%d:len=%zu:content=%.16s", r, cl, n, h);
    } else if(!strcmp(s->scen, "validate")) {
        int r1 = zck_validate_checksums(t->z1);
        int r2 = zck_validate_data_checksum(t->z1);
        flags_of(t->z1, fl);
        snprintf(t->obs, sizeof t->obs, "validate:rets=%d,%d:flags=%s", r1, r2, fl);
    } else if(!strcmp(s->scen, "feed")) {
        size_t half = s->a.n / 2;
        blob p1 = blob_dup(s->a.p, half), p2 = blob_dup(s->a.p + half, s->a.n - half);
        size_t r1 = zck_write_chunk_cb(p1.p, 1, p1.n, t->dl);
        size_t r2 = zck_write_chunk_cb(p2.p, 1, p2.n, t->dl);
        blob_free(&p1);
        blob_free(&p2);
        flags_of(t->z1, fl);
        blob f = fd_contents(t->fd1);
        sha256_hex(f.p, f.n, h);
        blob_free(&f);
        snprintf(t->obs, sizeof t->obs, "feed:rets=%zu,%zu:flags=%s:target=%.16s", r1, r2, fl, h);
    } else if(!strcmp(s->scen, "feedmp")) {
        blob hl = blob_dup(s->c.p, s->c.n);
        size_t r0 = zck_header_cb((char *)hl.p, 1, hl.n, t->dl);
        blob_free(&hl);
        size_t third = s->a.n / 3, rr[3];
        for(int i = 0; i < 3; i++) {
            size_t lo = i * third, len = i == 2 ? s->a.n - lo : third;
            blob pc = blob_dup(s->a.p + lo, len);
            rr[i] = zck_write_chunk_cb(pc.p, 1, pc.n, t->dl) == len;
            blob_free(&pc);
        }
        flags_of(t->z1, fl);
        blob f = fd_contents(t->fd1);
        sha256_hex(f.p, f.n, h);
        blob_free(&f);
        snprintf(t->obs, sizeof t->obs, "feedmp:hdr=%d:rets=%zu,%zu,%zu:flags=%s:target=%.16s", r0 == s->c.n, rr[0], rr[1], rr[2], fl, h);
    } else if(!strcmp(s->scen, "life")) {
        obsacc *o = calloc(1, sizeof *o);
        zckCtx *z = zck_create();
        int op = z && zck_init_read(z, t->fd1);
        oa(o, "open=%d", op);
        if(op) {
            char *d1 = zck_get_header_digest(z), *d2 = zck_get_data_digest(z);
            oa(o, " meta=%zd,%d,%d,%zd,%zd,%zd,%s,%s", zck_get_flags(z), zck_get_full_hash_type(z), zck_get_chunk_hash_type(z),
               zck_get_header_length(z), zck_get_length(z), zck_get_chunk_count(z), d1 ? d1 : "-", d2 ? d2 : "-");
            free(d1); free(d2);
            for(zckChunk *ch = zck_get_first_chunk(z); ch; ch = zck_get_next_chunk(ch)) {
                char *cd = zck_get_chunk_digest(ch);
                oa(o, " c%zd:%s:%zd:%zd:%zd", zck_get_chunk_number(ch), cd ? cd : "-", zck_get_chunk_start(ch), zck_get_chunk_comp_size(ch), zck_get_chunk_size(ch));
                free(cd);
            }
            char buf[16];
            ssize_t r;
            size_t tot = 0;
            while((r = zck_read(z, buf, 11)) > 0) { oa(o, "%.*s", 0, ""); tot += r; for(ssize_t i = 0; i < r; i++) oa(o, "%02x", (unsigned char)buf[i]); }
            oa(o, " last=%zd total=%zu close=%d", r, tot, (int)zck_close(z));
        }
        oa(o, " err=%s", z ? zck_get_error(z) : "-");
        if(z) zck_free(&z);
        sha256_hex(o->buf, o->n, h);
        snprintf(t->obs, sizeof t->obs, "life:n=%zu:%.32s", o->n, h);
        free(o);
    } else if(!strcmp(s->scen, "writez")) {
        zckCtx *z = zck_create();
        int ok = z && zck_init_write(z, t->fd1);
        ok = ok && zck_set_ioption(z, ZCK_COMP_TYPE, ZCK_COMP_ZSTD);
        if(ok && s->c.n) ok = zck_set_soption(z, ZCK_COMP_DICT, (char *)s->c.p, s->c.n);
        ok = ok && zck_set_ioption(z, ZCK_HASH_FULL_TYPE, ZCK_HASH_SHA512) && zck_set_ioption(z, ZCK_HASH_CHUNK_TYPE, ZCK_HASH_SHA1);
        ok = ok && zck_set_ioption(z, ZCK_MANUAL_CHUNK, 1);
        size_t half = s->a.n / 2;
        ssize_t r1 = ok ? zck_write(z, (char *)s->a.p, half) : -9;
        ssize_t r2 = ok ? zck_end_chunk(z) : -9;
        ssize_t r3 = ok ? zck_write(z, (char *)s->a.p + half, s->a.n - half) : -9;
        int cl = ok ? zck_close(z) : -9;
        if(z) zck_free(&z);
        blob f = fd_contents(t->fd1);
        sha256_hex(f.p, f.n, h);
        blob_free(&f);
        snprintf(t->obs, sizeof t->obs, "writez:ok=%d:rets=%zd,%zd,%zd:close=%d:file=%.16s", ok, r1, r2, r3, cl, h);
    } else if(!strcmp(s->scen, "nowrite")) {
        zckCtx *z = zck_create();
        int ok = z && zck_init_write(z, t->fd1);
        int nw = ok && zck_set_ioption(z, ZCK_NO_WRITE, 1);
        ok = ok && zck_set_ioption(z, ZCK_COMP_TYPE, ZCK_COMP_NONE) && zck_set_ioption(z, ZCK_MANUAL_CHUNK, 1);
        size_t half = s->a.n / 2;
        ssize_t r1 = ok ? zck_write(z, (char *)s->a.p, half) : -9;
        ssize_t r2 = ok ? zck_end_chunk(z) : -9;
        ssize_t r3 = ok ? zck_write(z, (char *)s->a.p + half, s->a.n - half) : -9;
        int cl = ok ? zck_close(z) : -9;
        char *dd = ok ? zck_get_data_digest(z) : NULL;
        ssize_t cnt = ok ? zck_get_chunk_count(z) : -9;
        snprintf(t->obs, sizeof t->obs, "nowrite:ok=%d,%d:rets=%zd,%zd,%zd:close=%d:count=%zd:digest=%.16s", ok, nw, r1, r2, r3, cl, cnt, dd ? dd : "-");
        free(dd);
        if(z) zck_free(&z);
    } else if(!strcmp(s->scen, "writefail")) {
        zckCtx *z = zck_create();
        int ok = z && zck_init_write(z, t->fd1);
        ok = ok && zck_set_ioption(z, ZCK_COMP_TYPE, ZCK_COMP_NONE) && zck_set_ioption(z, ZCK_MANUAL_CHUNK, 1);
        ssize_t r1 = -9, r2 = -9;
        for(int i = 0; ok && i < 6; i++) { r1 = zck_write(z, (char *)s->a.p, s->a.n); r2 = zck_end_chunk(z); }
        int cl = ok ? zck_close(z) : -9;
        if(z) zck_free(&z);
        snprintf(t->obs, sizeof t->obs, "writefail:ok=%d:rets=%zd,%zd:close=%d", ok, r1, r2, cl);
    } else if(!strcmp(s->scen, "bigrange")) {
        zckRange *r = zck_get_missing_range(t->z1, -1);
        char *rs = r ? zck_get_range_char(t->z1, r) : NULL;
        size_t n = rs ? strlen(rs) : 0;
        sha256_hex(rs ? rs : "", n, h);
        snprintf(t->obs, sizeof t->obs, "bigrange:count=%d:len=%zu:%.32s", r ? zck_get_range_count(r) : -1, n, h);
        free(rs);
        if(r) zck_range_free(&r);
    } else if(!strcmp(s->scen, "misc")) {
        obsacc *o = calloc(1, sizeof *o);
        for(int ty = 0; ty < 7; ty++) oa(o, "%s,%s;", zck_hash_name_from_type(ty), zck_comp_name_from_type(ty));
        char *rg = zck_get_range(5 + s->a.n, 900 + 3 * s->a.n);
        oa(o, " range=%s", rg ? rg : "-");
        free(rg);
        zckCtx *z = zck_create(), *y = zck_create();
        int o1 = zck_init_read(z, t->fd1), o2 = t->fd2 >= 0 && zck_init_read(y, t->fd2);
        oa(o, " open=%d,%d", o1, o2);
        if(o1) {
            /* refused option: the error text is built per context */
            oa(o, " bad=%d err=%s", (int)zck_set_ioption(z, 9000 + (int)(s->a.n % 7), 5), zck_get_error(z));
            zck_clear_error(z);
            for(zckChunk *ch = zck_get_first_chunk(z); ch; ch = zck_get_next_chunk(ch)) {
                char tmp[512];
                ssize_t r = zck_get_chunk_data(ch, tmp, sizeof tmp);
                oa(o, " d%zd=", r);
                for(ssize_t i = 0; i < r && i < 40; i++) oa(o, "%02x", (unsigned char)tmp[i]);
            }
            if(o2) {
                oa(o, " match=%d", (int)zck_find_matching_chunks(z, y));
                flags_of(y, fl);
                oa(o, " flags=%s", fl);
                zckRange *r = zck_get_missing_range(y, 2);
                char *rs = r ? zck_get_range_char(y, r) : NULL;
                oa(o, " missing=%s count=%d", rs ? rs : "-", r ? zck_get_range_count(r) : -1);
                free(rs);
                if(r) zck_range_free(&r);
            }
        }
        zck_free(&z);
        zck_free(&y);
        sha256_hex(o->buf, o->n, h);
        snprintf(t->obs, sizeof t->obs, "misc:n=%zu:%.32s", o->n, h);
        free(o);
    }
}

typedef struct { int rc; sched_trace tr; char obs[SCHED_MAXT][400]; } exec_res;

/* one execution in a child of its own (fresh static state of the library) */
static int run_exec(const int *tids, int nt, const unsigned char *prefix, int np, exec_res *shared) {
    fflush(NULL);
    pid_t pid = fork();
    if(pid < 0) die("fork");
    if(pid == 0) {
        die_with_parent();
        tstate ts[SCHED_MAXT];
        sched_body bs[SCHED_MAXT];
        void *as[SCHED_MAXT];
        memset(ts, 0, sizeof ts);
        for(int i = 0; i < nt; i++) {
            ts[i].s = &specs[tids[i]];
            prep(&ts[i]);
            bs[i] = body;
            as[i] = &ts[i];
        }
        shared->rc = sched_run(nt, bs, as, prefix, np, &shared->tr);
        for(int i = 0; i < nt; i++) memcpy(shared->obs[i], ts[i].obs, sizeof ts[i].obs);
        VF_EXIT(0);
    }
    int st = 0;
    while(waitpid(pid, &st, 0) < 0 && errno == EINTR) {}
    if(WIFSIGNALED(st)) return 1000 + WTERMSIG(st);
    return WEXITSTATUS(st);
}

typedef struct {
    const int *tids; int nt, bound; long execs, maxexec, bad; int maxpoints, capped;
    char alone[SCHED_MAXT][400];
    char distinct[64][SCHED_MAXT * 400]; int ndistinct;
    exec_res *shared;
    FILE *out; int idx; int printed;
} xstate;

static void explore(xstate *x, unsigned char *prefix, int np) {
    if(x->maxexec > 0 && x->execs >= x->maxexec) { x->capped = 1; return; }
    memset(x->shared, 0, sizeof *x->shared);
    int ec = run_exec(x->tids, x->nt, prefix, np, x->shared);
    x->execs++;
    exec_res r = *x->shared;      /* copy: the recursion reuses the shared page */
    if(ec == 0 && r.rc != 0) die("sched: schedule prefix did not replay (nondeterministic choice points)");
    if(r.tr.npoints > x->maxpoints) x->maxpoints = r.tr.npoints;
    /* check */
    bool bad = ec != 0;
    int badthread = -1;
    for(int i = 0; i < x->nt && !bad; i++)
        if(strcmp(r.obs[i], x->alone[i])) { bad = true; badthread = i; }
    char all[SCHED_MAXT * 400] = "";
    for(int i = 0; i < x->nt; i++) { strcat(all, r.obs[i]); strcat(all, "|"); }
    int f = -1;
    for(int i = 0; i < x->ndistinct; i++) if(!strcmp(x->distinct[i], all)) f = i;
    if(f < 0 && x->ndistinct < 64) strcpy(x->distinct[x->ndistinct++], all);
    if(bad) {
        x->bad++;
        if(x->printed < 3) {
            x->printed++;
            fprintf(x->out, "B %d exit=%d thread=%d sched=", x->idx, ec, badthread);
            for(int i = 0; i < r.tr.npoints; i++) fprintf(x->out, "%s%d", i ? "," : "", r.tr.who[i]);
            fprintf(x->out, " choices=");
            for(int i = 0; i < r.tr.npoints; i++) fprintf(x->out, "%s%d", i ? "," : "", r.tr.choice[i]);
            fprintf(x->out, " obs=%s alone=%s\n", badthread >= 0 ? r.obs[badthread] : "-", badthread >= 0 ? x->alone[badthread] : "-");
        }
        if(ec != 0) return;
    }
    /* preemptions used by the prefix part of this execution */
    for(int i = np; i < r.tr.npoints; i++) {
        int cost = 0;
        for(int j = 0; j < i; j++) if(r.tr.choice[j] != 0 && r.tr.cur_enabled[j]) cost++;
        if(r.tr.cur_enabled[i]) cost++;       /* switching away from a runnable thread is a preemption */
        if(cost > x->bound) continue;
        for(int alt = 1; alt < r.tr.nenabled[i]; alt++) {
            unsigned char np2[SCHED_MAXPOINTS];
            memcpy(np2, r.tr.choice, i);
            np2[i] = (unsigned char)alt;
            explore(x, np2, i + 1);
        }
    }
}

typedef struct { int tids[SCHED_MAXT]; int nt, bound; long maxexec; int freerun, reps; } ecase;
typedef struct { ecase *cases; int n; } ectx;

#ifdef VF_TSAN
static pthread_barrier_t g_bar;
static void *free_tramp(void *v) {
    pthread_barrier_wait(&g_bar);
    body(v);
    return NULL;
}
#endif

static void run_one(int idx, FILE *out, void *vctx) {
    ectx *c = vctx;
    ecase *k = &c->cases[idx];
    if(k->freerun) {
#ifdef VF_TSAN
        for(int rep = 0; rep < k->reps; rep++) {
            tstate ts[SCHED_MAXT];
            pthread_t th[SCHED_MAXT];
            memset(ts, 0, sizeof ts);
            pthread_barrier_init(&g_bar, NULL, k->nt);
            for(int i = 0; i < k->nt; i++) { ts[i].s = &specs[k->tids[i]]; prep(&ts[i]); }
            for(int i = 0; i < k->nt; i++) pthread_create(&th[i], NULL, free_tramp, &ts[i]);
            for(int i = 0; i < k->nt; i++) pthread_join(th[i], NULL);
            pthread_barrier_destroy(&g_bar);
            for(int i = 0; i < k->nt; i++) {
                if(ts[i].z1) zck_free(&ts[i].z1);
                if(ts[i].z2) zck_free(&ts[i].z2);
                if(ts[i].fd1 >= 0) real_close(ts[i].fd1);
                if(ts[i].fd2 >= 0) real_close(ts[i].fd2);
            }
        }
        fprintf(out, "R %d reps=%d\n", idx, k->reps);
#else
        die("free-running pass needs the tsan variant");
#endif
        return;
    }
    xstate *x = calloc(1, sizeof *x);
    x->tids = k->tids; x->nt = k->nt; x->bound = k->bound; x->maxexec = k->maxexec; x->out = out; x->idx = idx;
    x->shared = mmap(NULL, sizeof *x->shared, PROT_READ | PROT_WRITE, MAP_SHARED | MAP_ANONYMOUS, -1, 0);
    if(x->shared == MAP_FAILED) die("mmap");
    /* serial baseline: every body alone */
    for(int i = 0; i < k->nt; i++) {
        int one[1] = {k->tids[i]};
        memset(x->shared, 0, sizeof *x->shared);
        int ec = run_exec(one, 1, NULL, 0, x->shared);
        if(ec != 0) die("sched: body %d alone fails (%d)", k->tids[i], ec);
        strcpy(x->alone[i], x->shared->obs[0]);
    }
    unsigned char none[1];
    explore(x, none, 0);
    fprintf(out, "E %d execs=%ld maxpoints=%d bound=%d complete=%d distinct=%d bad=%ld alone=", idx, x->execs, x->maxpoints, x->bound,
            !x->capped, x->ndistinct, x->bad);
    for(int i = 0; i < k->nt; i++) fprintf(out, "%s%s", i ? "|" : "", x->alone[i]);
    fputc('\n', out);
    munmap(x->shared, sizeof *x->shared);
    free(x);
}

int cmd_sched(FILE *job, FILE *out) {
    ectx c = {0};
    int cap = 0;
    char *line;
    while((line = read_line(job))) {
        int n;
        char **t = split_ws(line, &n);
        if(n == 0) { free(t); free(line); continue; }
        if(!strcmp(t[0], "thread")) {
            int i = atoi(t[1]);
            if(i < 0 || i >= 8) die("sched: thread index");
            snprintf(specs[i].scen, sizeof specs[i].scen, "%s", kv(t, n, "scen", "read"));
            specs[i].a = blob_arg(kv(t, n, "a", "-"));
            specs[i].b = blob_arg(kv(t, n, "b", "-"));
            specs[i].c = blob_arg(kv(t, n, "c", "-"));
        } else if(!strcmp(t[0], "explore") || !strcmp(t[0], "free")) {
            if(c.n >= cap) { cap = cap ? cap * 2 : 64; c.cases = realloc(c.cases, cap * sizeof *c.cases); }
            ecase k;
            memset(&k, 0, sizeof k);
            int nl;
            int *l = parse_int_list(kv(t, n, "threads", "0,1"), &nl);
            if(nl > SCHED_MAXT) die("sched: too many threads");
            for(int i = 0; i < nl; i++) k.tids[i] = l[i];
            k.nt = nl;
            k.bound = (int)kvi(t, n, "bound", 2);
            k.maxexec = kvi(t, n, "maxexec", 0);
            k.freerun = !strcmp(t[0], "free");
            k.reps = (int)kvi(t, n, "reps", 20);
            c.cases[c.n++] = k;
        } else die("sched: bad line %s", t[0]);
        free(t);
        free(line);
    }
    run_opts o = {.chunk = 1, .timeout_ms = 3600000, .always_fork_each = true};
    run_cases(c.n, run_one, &c, o, out);
    return 0;
}
