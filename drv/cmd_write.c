/* writehist: run write histories through the library writer and (optionally) read the result back
 *
 * job lines (state lines apply to the following cases):
 *   cfg comp=.. level=.. dict=<blob> uncomp=.. chash=.. fhash=.. manual=.. min=.. max=..
 *   content <blob>
 *   read <schedules>         e.g. "1;7;32768;1,5,2" ; "-" disables the read-back
 *   closemask <bits>         close descriptor i (0..2) before zck_init_write when bit i is set (closefds <n> = bits 0..n-1)
 *   save <dir>               large outputs are stored as <dir>/<sha256>.zck
 *   hist <ops>               one case.  ops: w<n> write next n bytes, W write all remaining, e end chunk,
 *                            comma separated; the remaining content is NOT written implicitly
 * output per case:
 *   W <idx> init=<0|1> [refused=<opt>] rets=<r,r,...> close=<0|1> werr=<hex> file=<blob> written=<n>
 *   V <idx> open=<0|1> validate=<n>
 *   R <idx> sched=<s> open=.. reads=.. last=.. rclose=.. content=<blob> ...
 */
#include "drv.h"
#include "scen.h"
#include <sys/stat.h>

typedef struct {
    wcfg cfg; blob content; char *scheds; int closefds; char *ops; char *save; int recover;
    deviation plan[8]; int nplan; int trace; int meta;   /* C12: environment answers for the write path (output and temp file) */
} wcase;
typedef struct { wcase *cases; int n; } wctx;

static void save_blob(const char *dir, const blob *b) {
    char h[65], path[4200];
    sha256_hex(b->p, b->n, h);
    snprintf(path, sizeof path, "%s/%s.zck", dir, h);
    if(access(path, F_OK) == 0) return;
    char tmp[4300];
    snprintf(tmp, sizeof tmp, "%s.%d", path, (int)getpid());
    int fd = open(tmp, O_WRONLY | O_CREAT | O_TRUNC, 0644);
    if(fd < 0) die("save %s: %s", tmp, strerror(errno));
    size_t off = 0;
    while(off < b->n) {
        ssize_t w = real_write(fd, b->p + off, b->n - off);
        if(w <= 0) die("save write");
        off += w;
    }
    real_close(fd);
    rename(tmp, path);
}

static void run_one(int idx, FILE *out, void *vctx) {
    wctx *c = vctx;
    wcase *k = &c->cases[idx];
    int ofd = tmp_file("wout");
    /* make sure the output descriptor is not one of those we are about to close */
    if(k->closefds > 0) {
        int hi = fcntl(ofd, F_DUPFD, 10);
        real_close(ofd);
        ofd = hi;
        fflush(NULL);
        for(int i = 0; i < 3; i++) if(k->closefds >> i & 1) real_close(i);
    }
    zckCtx *zck = zck_create();
    if(!zck) die("zck_create");
    fprintf(out, "W %d", idx);
    if(k->nplan || k->trace) {
        env_reset();
        env_role(ofd, ROLE_OUTPUT);
        env_set_plan(k->plan, k->nplan);
        env_enable(true);
    }
    int init = zck_init_write(zck, ofd);
    fprintf(out, " init=%d", init);
    bool ok = init;
    if(ok) ok = wcfg_apply(zck, &k->cfg, out);
    size_t pos = 0;
    fprintf(out, " rets=");
    int nret = 0;
    bool failed = !ok;
    if(ok) {
        char *ops = strdup(k->ops), *save = NULL;
        for(char *op = strtok_r(ops, ",", &save); op; op = strtok_r(NULL, ",", &save)) {
            ssize_t r;
            if(op[0] == 'e') {
                r = zck_end_chunk(zck);
            } else if(op[0] == 'W') {
                size_t len = k->content.n - pos;
                r = zck_write(zck, (char *)k->content.p + pos, len);
                if(r >= 0 && (size_t)r != len) r = -1000 - r; /* short accept is not in the API contract */
                pos += len;
            } else if(op[0] == 'w') {
                size_t len = strtoul(op + 1, NULL, 10);
                if(pos + len > k->content.n) len = k->content.n - pos;
                r = zck_write(zck, (char *)k->content.p + pos, len);
                if(r >= 0 && (size_t)r != len) r = -1000 - r;
                pos += len;
            } else if(op[0] == '-') {
                continue;
            } else die("bad op %s", op);
            if(nret < 64) fprintf(out, "%s%zd", nret ? "," : "", r);
            nret++;
            if(r < 0) {
                failed = true;
                /* recover 1: a caller that clears the error and goes on (and closes at the end); what the file must then be is
                 * judged by the check, the default is to stop at the first failed call */
                if(!k->recover || !zck_clear_error(zck)) break;
            }
        }
        free(ops);
    }
    if(!nret) fputc('-', out);
    int cl = 0;
    int bad0 = env_bad_closes;
    if(ok && (!failed || k->recover)) cl = zck_close(zck);
    /* a caller that opens something between zck_close and zck_free gets the lowest free descriptor number - the one the
     * writer's temporary file had; the read-back below goes through that descriptor */
    int vfd = cl ? dup(ofd) : -1;
    fprintf(out, " nrets=%d fail=%d close=%d written=%zu werr=", nret, failed, cl, pos);
    const char *e = zck_get_error(zck);
    put_hex(out, e, strlen(e) > 60 ? 60 : strlen(e));
    zck_free(&zck);
    fprintf(out, " badclose=%d", env_bad_closes - bad0);
    if(k->nplan || k->trace) {
        env_enable(false);
        fprintf(out, " mismatch=%d calls=%d", env_plan_mismatch, env_calls());
        if(k->trace) env_print_trace(out);
    }
    blob f = fd_contents(ofd);
    if(k->save && f.n > 4096) save_blob(k->save, &f);
    put_blob(out, "file", f.p, f.n);
    fputc('\n', out);
    bool readback = k->scheds && strcmp(k->scheds, "-");
    if(cl && (readback || k->meta)) {
        /* reopen stdio descriptors so later diagnostics do not land in data files */
        if(k->closefds > 0) {
            for(int i = 0; i < 3; i++) {
                if(fcntl(i, F_GETFD) != -1) continue;
                int nfd = open("/dev/null", O_RDWR);
                if(nfd != i) { dup2(nfd, i); real_close(nfd); }
            }
        }
        int rfd = vfd >= 0 ? vfd : ofd;
        real_lseek(rfd, 0, SEEK_SET);
        zckCtx *v = zck_create();
        int vo = zck_init_read(v, rfd);
        int val = vo && readback ? zck_validate_checksums(v) : 0;
        fprintf(out, "V %d open=%d validate=%d\n", idx, vo, val);
        if(vo && k->meta) {
            char pre[32];
            snprintf(pre, sizeof pre, "M %d", idx);
            zck_clear_error(v);
            dump_meta(v, out, pre);
            fputc('\n', out);
        }
        zck_free(&v);
        int **sc, *ln;
        int ns = readback ? parse_scheds(k->scheds, &sc, &ln) : 0;
        for(int s = 0; s < ns; s++) {
            read_res r = lib_read_all(rfd, sc[s], ln[s], k->content.n * 2 + 65536, false);
            fprintf(out, "R %d sched=%d", idx, s);
            read_res_print(&r, out, false);
            fputc('\n', out);
            read_res_free(&r);
        }
    }
    blob_free(&f);
    if(vfd >= 0) real_close(vfd);
    real_close(ofd);
}

int cmd_writehist(FILE *job, FILE *out) {
    wctx c = {0};
    int cap = 0;
    wcase cur;
    memset(&cur, 0, sizeof cur);
    cur.cfg.comp = cur.cfg.level = cur.cfg.chash = cur.cfg.fhash = -1;
    char *line;
    int chunk = 64, timeout = 10000;
    while((line = read_line(job))) {
        int n;
        char **t = split_ws(line, &n);
        if(n == 0) { free(t); free(line); continue; }
        if(!strcmp(t[0], "cfg")) wcfg_parse(&cur.cfg, t + 1, n - 1);
        else if(!strcmp(t[0], "content")) cur.content = blob_arg(t[1]);
        else if(!strcmp(t[0], "read")) cur.scheds = strdup(t[1]);
        else if(!strcmp(t[0], "closefds")) cur.closefds = (1 << atoi(t[1])) - 1;
        else if(!strcmp(t[0], "closemask")) cur.closefds = atoi(t[1]);
        else if(!strcmp(t[0], "save")) cur.save = strdup(t[1]);
        else if(!strcmp(t[0], "recover")) cur.recover = atoi(t[1]);
        else if(!strcmp(t[0], "plan")) cur.nplan = parse_plan(t[1], cur.plan, 8);
        else if(!strcmp(t[0], "trace")) cur.trace = atoi(t[1]);
        else if(!strcmp(t[0], "meta")) cur.meta = atoi(t[1]);
        else if(!strcmp(t[0], "chunk")) chunk = atoi(t[1]);
        else if(!strcmp(t[0], "timeout")) timeout = atoi(t[1]);
        else if(!strcmp(t[0], "hist")) {
            if(c.n >= cap) { cap = cap ? cap * 2 : 1024; c.cases = realloc(c.cases, cap * sizeof *c.cases); }
            c.cases[c.n] = cur;
            c.cases[c.n].ops = strdup(n > 1 ? t[1] : "-");
            c.n++;
        } else die("writehist: bad line %s", t[0]);
        free(t);
        free(line);
    }
    run_opts o = {.chunk = chunk, .timeout_ms = timeout};
    run_cases(c.n, run_one, &c, o, out);
    return 0;
}
