#ifndef SCEN_H
#define SCEN_H
#include "drv.h"

enum { UPD_OK = 0, UPD_INTERNAL = 1, UPD_SRC_OPEN, UPD_HEADER, UPD_SCAN, UPD_COPY, UPD_RANGE, UPD_TRANSFER, UPD_TRUNCATE,
       UPD_VALIDATE, UPD_NOTERM };
#define UPD_MAXREQ 64
typedef struct {
    const blob *a;      /* old file or NULL */
    const blob *b;      /* new file, held by the server */
    int limit;          /* max ranges per request */
    int style;          /* spelling of multipart responses */
    int piece;          /* body bytes per callback invocation (0 = 16384) */
    long abort_at;      /* >= 0: the first chunk response is cut off after this many body bytes (connection dropped);
                           the client resets its zckDL and goes round the loop again.  -1 = never */
} upd_cfg;
typedef struct {
    int status, nreq, missing_end, failed_end, complete_at_scan, aborted;
    long body_bytes;
    struct { char kind; char range[1024]; } req[UPD_MAXREQ];
    char flags_scan[80], flags_copy[80], flags_end[80], err[200];
} upd_res;
void update_run(const upd_cfg *cfg, int tfd, upd_res *res);
void upd_res_print(const upd_res *r, FILE *out);
void env_print_trace(FILE *o);   /* " trace=k:op:role:req:res:dev,..." */
int parse_plan(const char *s, deviation *d, int max);   /* "k:F:5,k:S:3,k:K:7" */
#endif
