#ifndef DRV_H
#define DRV_H
#include <stdio.h>
#include <stdlib.h>
#include <stdint.h>
#include <stdbool.h>
#include <string.h>
#include <unistd.h>
#include <fcntl.h>
#include <errno.h>
#include <sys/types.h>
#include <zck.h>

typedef struct { unsigned char *p; size_t n; } blob;

/* ---- util.c ---- */
void die(const char *fmt, ...) __attribute__((noreturn, format(printf, 1, 2)));
/* coverage builds (./vf coverage) write their counters before a child leaves through _exit */
void vf_cov_flush(void);
#define VF_EXIT(c) do { vf_cov_flush(); _exit(c); } while(0)
blob blob_new(size_t n);
blob blob_dup(const void *p, size_t n);
blob blob_from_file(const char *path);
blob blob_from_hex(const char *hex);
blob blob_arg(const char *tok);              /* "@path" | hex | "-" (empty) */
void blob_free(blob *b);
void put_hex(FILE *o, const void *p, size_t n);
void put_blob(FILE *o, const char *key, const void *p, size_t n); /* key=hex (or key=#sha256:len when > 4096) */
void sha256_hex(const void *p, size_t n, char out[65]);
int mem_fd(const char *name);                /* anonymous file */
int tmp_file(const char *tag);               /* unlinked file in $VF_TMP, O_RDWR */
int tmp_file_with(const char *tag, const void *p, size_t n); /* positioned at 0 */
blob fd_contents(int fd);
char **split_ws(char *line, int *n);         /* in place */
const char *kv(char **tok, int n, const char *key, const char *dflt);
long long kvi(char **tok, int n, const char *key, long long dflt);
char *read_line(FILE *f);                    /* malloc'd, no newline; NULL at EOF */
int *parse_int_list(const char *s, int *n);  /* "1,2,3" */

/* ---- runner.c ---- */
typedef void (*case_fn)(int idx, FILE *out, void *ctx);
typedef struct {
    int chunk;          /* cases per child in batch mode (0 = default 64) */
    int timeout_ms;     /* per case */
    bool always_fork_each; /* one child per case */
    bool inproc;        /* no fork at all (pure functions) */
    bool confirm_hang;  /* a case that hits its alarm is re-run alone with 10x the limit before it counts as a hang (commands
                           whose callers do not do that themselves) */
} run_opts;
/* runs cases [0,n): emits for every case the lines fn printed followed by one status line
 *   "X <idx> exit=<n> sig=<n> timeout=<0|1> san=<hex|->" */
void run_cases(int n, case_fn fn, void *ctx, run_opts o, FILE *out);
extern int g_in_child;
/* to be called first thing in a process forked by a case: when the case's own process is killed by its alarm, the forked
 * process (a tool that spins, an update that hangs) must not live on as an orphan that eats a core */
void die_with_parent(void);

/* ---- env.c : environment seam ---- */
enum { ROLE_NONE = 0, ROLE_INPUT, ROLE_OUTPUT, ROLE_TEMP, ROLE_SOURCE, ROLE_TARGET, ROLE_OTHER };
enum { DEV_FAIL = 1, DEV_SHORT = 2, DEV_KILL = 3 };
typedef struct { int k; int kind; long arg; } deviation;
void env_reset(void);
void env_role(int fd, int role);
void env_path_role(const char *path, int role);
void env_set_plan(const deviation *d, int n);
void env_enable(bool on);                      /* count + trace + plan on role-tagged fds */
extern int env_alloc_on, env_alloc_count, env_alloc_fail_at;   /* allocator seam */
int env_calls(void);                           /* number of choice points seen */
void env_dump_trace(FILE *o);                  /* "T k op role req res errno" lines */
extern int env_bad_closes;                     /* closes on descriptors that are not open (EBADF) by the code under test */
extern int env_plan_mismatch;                  /* plan referenced a call that does not accept it */
ssize_t real_read(int fd, void *b, size_t n);
ssize_t real_write(int fd, const void *b, size_t n);
off_t real_lseek(int fd, off_t o, int w);
int real_close(int fd);
int real_ftruncate(int fd, off_t l);

/* ---- sched.c ---- */
void sched_point(void);                        /* called by env at every wrapped call */
extern int sched_active;

/* ---- lib helpers (libops.c) ---- */
typedef struct {
    int comp;        /* 0 none, 2 zstd, -1 default */
    int level;       /* -1 default */
    blob dict;
    int uncomp;      /* ZCK_UNCOMP_HEADER */
    int chash;       /* -1 default */
    int fhash;       /* -1 default */
    int manual;      /* 0 auto,1 manual */
    long min, max;   /* 0 = unset */
    long max2;       /* 0 = unset; ZCK_CHUNK_MAX set a second time, after the minimum */
    int nowrite;
    int refuse;      /* after the options: a battery of option calls with values the library must refuse, each followed by
                        zck_clear_error() - a refused call must leave the configuration as it was */
} wcfg;
void wcfg_parse(wcfg *c, char **tok, int n);
/* apply config to a context opened for writing; returns false if the library refused an option (msg in *why) */
bool wcfg_apply(zckCtx *zck, const wcfg *c, FILE *out);
void dump_meta(zckCtx *zck, FILE *out, const char *prefix);
void dump_flags(zckCtx *zck, FILE *out, const char *key);

typedef struct {
    int open_ok, nreads, last_ret, close_ok, first_err_at, runaway, overrun;
    size_t bytes_before_err;
    blob content;
    ssize_t *rets;
    char err[160];
} read_res;
extern int g_read_recover;
read_res lib_read_ctx(zckCtx *zck, const int *sched, int nsched, size_t cap, bool want_rets);
read_res lib_read_all(int fd, const int *sched, int nsched, size_t cap, bool want_rets);
void read_res_print(const read_res *r, FILE *out, bool want_rets);
void read_res_free(read_res *r);
int parse_scheds(const char *s, int ***out, int **lens);

/* commands */
int cmd_selfcheck(int argc, char **argv);
int cmd_openenum(FILE *job, FILE *out);
int cmd_readenum(FILE *job, FILE *out);
int cmd_writehist(FILE *job, FILE *out);
int cmd_apiseq(FILE *job, FILE *out);
int cmd_tool(FILE *job, FILE *out);
int cmd_copy(FILE *job, FILE *out);
int cmd_ranges(FILE *job, FILE *out);
int cmd_feed(FILE *job, FILE *out);
int cmd_update(FILE *job, FILE *out);
int cmd_compint(FILE *job, FILE *out);
int cmd_hash(FILE *job, FILE *out);
int cmd_sched(FILE *job, FILE *out);
int cmd_pin(FILE *job, FILE *out);
int cmd_meta(FILE *job, FILE *out);
int cmd_chunkreq(FILE *job, FILE *out);
int cmd_fault(FILE *job, FILE *out);
int cmd_scan(FILE *job, FILE *out);
int cmd_update(FILE *job, FILE *out);
void env_print_trace(FILE *o);
int cmd_explore(FILE *job, FILE *out);

#endif
