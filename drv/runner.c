/* Batch runner: executes cases in forked children so that a crash, sanitizer abort or hang of the code under
 * test is an observation and not the end of the exploration.  Cases are first run many-per-child; a child
 * that does not end cleanly is discarded and each of its cases is re-executed alone in a fresh child, which
 * attributes the failure to a single case (cases are deterministic functions of their index). */
#include "drv.h"
#include <signal.h>
#include <sys/wait.h>
#include <sys/time.h>
#include <sys/stat.h>

int g_in_child = 0;

#include <sys/prctl.h>
void die_with_parent(void) {
    prctl(PR_SET_PDEATHSIG, SIGKILL);
    if(getppid() == 1) _exit(96);     /* the parent was gone before the request took effect */
}

static bool san_dirty(const blob *err) {
    if(err->n == 0) return false;
    /* "WARNING: AddressSanitizer failed to allocate" is the allocator returning NULL as configured - not a report */
    return memmem(err->p, err->n, "ERROR: AddressSanitizer", 23) || memmem(err->p, err->n, "runtime error:", 14) ||
           memmem(err->p, err->n, "WARNING: ThreadSanitizer", 24) || memmem(err->p, err->n, "ERROR: LeakSanitizer", 20) ||
           memmem(err->p, err->n, "ERROR: UndefinedBehaviorSanitizer", 33) || memmem(err->p, err->n, "DEADLYSIGNAL", 12);
}

/* compact summary of the sanitizer output: headline lines + first frames that lie in the repository */
static void san_summary(const blob *err, FILE *out) {
    if(!san_dirty(err)) { fputs("-", out); return; }
    char *s = malloc(err->n + 1);
    memcpy(s, err->p, err->n);
    s[err->n] = 0;
    char buf[1600];
    size_t bl = 0;
    int heads = 0, frames = 0;
    char *save = NULL;
    for(char *ln = strtok_r(s, "\n", &save); ln; ln = strtok_r(NULL, "\n", &save)) {
        bool head = strstr(ln, "runtime error:") || strstr(ln, "ERROR: AddressSanitizer") ||
                    strstr(ln, "ERROR: LeakSanitizer") || strstr(ln, "WARNING: ThreadSanitizer") ||
                    strncmp(ln, "SUMMARY:", 8) == 0;
        bool frame = (strstr(ln, "    #") == ln) && (strstr(ln, "/src/lib/") || strstr(ln, "/src/zck") ||
                     strstr(ln, "/src/unzck") || strstr(ln, "/src/util") || strstr(ln, "/src/memmem"));
        if((head && heads < 6) || (frame && frames < 6)) {
            size_t l = strlen(ln);
            if(l > 240) l = 240;
            if(bl + l + 1 < sizeof buf) {
                memcpy(buf + bl, ln, l);
                bl += l;
                buf[bl++] = '\n';
            }
            if(head) heads++; else frames++;
        }
    }
    put_hex(out, buf, bl);
    free(s);
}

typedef struct { int exit_code, sig, timeout; blob out, err; } child_res;

static child_res run_child(int a, int b, case_fn fn, void *ctx, int timeout_ms) {
    child_res r = {0};
    int ofd = mem_fd("out"), efd = mem_fd("err");
    fflush(NULL);
    pid_t pid = fork();
    if(pid < 0) die("fork: %s", strerror(errno));
    if(pid == 0) {
        g_in_child = 1;
        dup2(efd, 2);
        FILE *o = fdopen(ofd, "w");
        struct itimerval it = {{0, 0}, {timeout_ms / 1000, (timeout_ms % 1000) * 1000}};
        signal(SIGALRM, SIG_DFL);
        setitimer(ITIMER_REAL, &it, NULL);
        for(int i = a; i < b; i++) {
            fn(i, o, ctx);
            fprintf(o, "X %d exit=0 sig=0 timeout=0 san=-\n", i);
            fflush(o);
        }
        fflush(o);
        VF_EXIT(0);
    }
    int st = 0;
    while(waitpid(pid, &st, 0) < 0 && errno == EINTR) {}
    if(WIFEXITED(st)) r.exit_code = WEXITSTATUS(st);
    if(WIFSIGNALED(st)) {
        r.sig = WTERMSIG(st);
        if(r.sig == SIGALRM) r.timeout = 1;
    }
    r.out = fd_contents(ofd);
    r.err = fd_contents(efd);
    real_close(ofd);
    real_close(efd);
    return r;
}

/* A case that ran into its alarm is executed once more, alone, with ten times the limit (at most two minutes) before it is
 * called a hang: the alarm measures wall time, and on a loaded machine a slow but finite case (an open that zero-fills a
 * declared 200 MB header 128 times takes 6 s unloaded) must not turn into a verdict that does not replay. */
static child_res confirm_hang(int idx, child_res first, case_fn fn, void *ctx, int timeout_ms, bool enabled) {
    if(!enabled || getenv("VF_NO_HANG_CONFIRM")) return first;
    long t = (long)timeout_ms * 10;
    if(t > 120000) t = 120000;
    if(t <= timeout_ms) return first;
    blob_free(&first.out);
    blob_free(&first.err);
    return run_child(idx, idx + 1, fn, ctx, (int)t);
}

static void emit_single(int idx, child_res *r, FILE *out) {
    /* drop a trailing X line the child may have printed, then print the real status */
    size_t n = r->out.n;
    char tag[32];
    snprintf(tag, sizeof tag, "X %d ", idx);
    char *x = NULL;
    if(n) {
        /* find last line start */
        size_t i = n;
        if(i && r->out.p[i - 1] == '\n') i--;
        while(i > 0 && r->out.p[i - 1] != '\n') i--;
        if(strncmp((char *)r->out.p + i, tag, strlen(tag)) == 0) { x = (char *)r->out.p + i; n = i; }
    }
    (void)x;
    if(n) {
        fwrite(r->out.p, 1, n, out);
        if(r->out.p[n - 1] != '\n') fputc('\n', out);
    }
    fprintf(out, "X %d exit=%d sig=%d timeout=%d san=", idx, r->exit_code, r->sig, r->timeout);
    san_summary(&r->err, out);
    fputc('\n', out);
}

void run_cases(int n, case_fn fn, void *ctx, run_opts o, FILE *out) {
    if(o.timeout_ms <= 0) o.timeout_ms = 10000;
    const char *tm = getenv("VF_TIMEOUT_MS");
    if(tm) o.timeout_ms = atoi(tm);
    if(o.inproc) {
        for(int i = 0; i < n; i++) {
            fn(i, out, ctx);
            fprintf(out, "X %d exit=0 sig=0 timeout=0 san=-\n", i);
        }
        return;
    }
    int chunk = o.always_fork_each ? 1 : (o.chunk > 0 ? o.chunk : 64);
    if(getenv("VF_FORK_EACH")) chunk = 1;
    /* after this many hung cases the rest of the job is reported as not executed (timeout=2): a hang is a finding
     * already, and a systematic one must not turn the exploration into hours of waiting */
    int max_hangs = getenv("VF_MAX_TIMEOUTS") ? atoi(getenv("VF_MAX_TIMEOUTS")) : 4, hangs = 0;
    for(int a = 0; a < n; a += chunk) {
        int b = a + chunk < n ? a + chunk : n;
        if(hangs >= max_hangs) {
            for(int i = a; i < b; i++) fprintf(out, "X %d exit=0 sig=0 timeout=2 san=-\n", i);
            continue;
        }
        long tmo = (long)o.timeout_ms + 50L * (b - a);
        child_res r = run_child(a, b, fn, ctx, (int)tmo);
        bool clean = r.exit_code == 0 && r.sig == 0 && !san_dirty(&r.err);
        if(!clean && getenv("VF_DEBUG")) {
            fprintf(stderr, "batch [%d,%d) not clean: exit=%d sig=%d err=%.*s\n", a, b, r.exit_code, r.sig, (int)(r.err.n > 3000 ? 3000 : r.err.n), (char *)r.err.p);
        }
        if(clean) {
            fwrite(r.out.p, 1, r.out.n, out);
        } else if(b - a == 1) {
            if(r.timeout) r = confirm_hang(a, r, fn, ctx, o.timeout_ms, o.confirm_hang);
            if(r.timeout) hangs++;
            emit_single(a, &r, out);
        } else {
            for(int i = a; i < b; i++) {
                if(hangs >= max_hangs) { fprintf(out, "X %d exit=0 sig=0 timeout=2 san=-\n", i); continue; }
                child_res s = run_child(i, i + 1, fn, ctx, o.timeout_ms);
                if(s.timeout) s = confirm_hang(i, s, fn, ctx, o.timeout_ms, o.confirm_hang);
                if(s.timeout) hangs++;
                emit_single(i, &s, out);
                blob_free(&s.out);
                blob_free(&s.err);
            }
        }
        blob_free(&r.out);
        blob_free(&r.err);
        fflush(out);
    }
}
