/* tool: the repository's command-line tools run in-process (their main() renamed at build time), each in a child of
 * its own because they call exit() (C01, C02, C03, C12, C13)
 *
 * job lines:
 *   clear                          forget the files of the current state
 *   file <name> <blob>             state: a file to create in the case's private directory before the tool runs
 *   case tool=<zck|unzck|zck_read_header|zck_delta_size|zck_gen_zdict|zckdl> args=<arg>,<arg>,...  (each arg hex encoded, "-" = empty)
 *        [closefds=<n> | closemask=<bits>] [plan=<...>] [roles=<name>:<i|o|s|g>,...] [trace=1] [out=<name>,<name>...] [maxout=<bytes>]
 * the tool runs with the private directory as its working directory.
 * output: L <idx> exit=<code> sig=<n> killed=<0|1> mismatch= calls= stdout=<blob> f.<name>=<blob|ABSENT> ... [trace=...]
 */
#include "drv.h"
#include "scen.h"
#include <sys/wait.h>
#include <sys/stat.h>
#include <sys/mman.h>
#include <dirent.h>
#include <sys/resource.h>
#include <signal.h>

int zck_main(int, char **);
int unzck_main(int, char **);
int zck_read_header_main(int, char **);
int zck_delta_size_main(int, char **);
int zck_gen_zdict_main(int, char **);
int zckdl_main(int, char **);

typedef struct { char *name; blob data; } tfile;
typedef struct {
    tfile *files; int nfiles;
    char *tool; char **args; int nargs; int closefds; deviation plan[8]; int nplan; char *roles; int trace; char *outs;
} tcase;
typedef struct { tcase *cases; int n; } tctx;

static void rm_rf(const char *dir) {
    DIR *d = opendir(dir);
    if(!d) return;
    struct dirent *e;
    while((e = readdir(d))) {
        if(!strcmp(e->d_name, ".") || !strcmp(e->d_name, "..")) continue;
        char p[4400];
        snprintf(p, sizeof p, "%s/%s", dir, e->d_name);
        extern int __real_unlink(const char *);
        __real_unlink(p);
    }
    closedir(d);
    rmdir(dir);
}

static int role_code(char c) {
    return c == 'i' ? ROLE_INPUT : c == 'o' ? ROLE_OUTPUT : c == 's' ? ROLE_SOURCE : c == 'g' ? ROLE_TARGET : ROLE_OTHER;
}

typedef struct { int mismatch, calls, ntrace; char trace[60000]; } shared_t;
static shared_t *g_sh;
int env_snprint_trace(char *dst, size_t cap);
static void publish(void) {
    if(!g_sh) return;
    env_enable(false);
    g_sh->mismatch = env_plan_mismatch;
    g_sh->calls = env_calls();
    g_sh->ntrace = env_snprint_trace(g_sh->trace, sizeof g_sh->trace);
}

static void run_one(int idx, FILE *out, void *vctx) {
    tctx *c = vctx;
    tcase *k = &c->cases[idx];
    const char *base = getenv("VF_TMP");
    if(!base) base = "/dev/shm";
    char dir[4096];
    snprintf(dir, sizeof dir, "%s/vf-tool-XXXXXX", base);
    if(!mkdtemp(dir)) die("mkdtemp %s: %s", dir, strerror(errno));
    for(int i = 0; i < k->nfiles; i++) {
        char p[4400];
        snprintf(p, sizeof p, "%s/%s", dir, k->files[i].name);
        int fd = open(p, O_WRONLY | O_CREAT | O_TRUNC, 0644);
        if(fd < 0) die("create %s: %s", p, strerror(errno));
        size_t off = 0;
        while(off < k->files[i].data.n) {
            ssize_t w = real_write(fd, k->files[i].data.p + off, k->files[i].data.n - off);
            if(w <= 0) die("write %s", p);
            off += w;
        }
        real_close(fd);
    }
    int so = mem_fd("stdout");
    shared_t *sh = mmap(NULL, sizeof *sh, PROT_READ | PROT_WRITE, MAP_SHARED | MAP_ANONYMOUS, -1, 0);
    if(sh == MAP_FAILED) die("mmap");
    memset(sh, 0, sizeof *sh);
    fflush(NULL);
    pid_t pid = fork();
    if(pid < 0) die("fork");
    if(pid == 0) {
        die_with_parent();
        if(chdir(dir) != 0) _exit(97);
        struct rlimit rl = {256u << 20, 256u << 20};     /* output files are limited like a small disk */
        setrlimit(RLIMIT_FSIZE, &rl);
        signal(SIGXFSZ, SIG_IGN);
        /* argv strings must be writable: the tools edit them in place */
        char **argv = calloc(k->nargs + 2, sizeof *argv);
        argv[0] = strdup(k->tool);
        for(int i = 0; i < k->nargs; i++) argv[i + 1] = strdup(k->args[i]);
        dup2(so, 1);
        int devnull = open("/dev/null", O_RDONLY);
        dup2(devnull, 0);
        if(devnull > 2) real_close(devnull);
        if(so > 2) real_close(so);
        for(int i = 0; i < 3; i++) if(k->closefds >> i & 1) real_close(i);
        env_reset();
        if(k->roles) {
            char *r = strdup(k->roles), *save = NULL;
            for(char *p = strtok_r(r, ",", &save); p; p = strtok_r(NULL, ",", &save)) {
                char *colon = strrchr(p, ':');
                if(!colon) die("bad roles");
                *colon = 0;
                env_path_role(p, role_code(colon[1]));
            }
        }
        env_set_plan(k->plan, k->nplan);
        g_sh = sh;
        atexit(publish);
        if(k->roles) env_enable(true);
        int rc;
        optind = 0;
        if(!strcmp(k->tool, "zck")) rc = zck_main(k->nargs + 1, argv);
        else if(!strcmp(k->tool, "unzck")) rc = unzck_main(k->nargs + 1, argv);
        else if(!strcmp(k->tool, "zck_read_header")) rc = zck_read_header_main(k->nargs + 1, argv);
        else if(!strcmp(k->tool, "zck_delta_size")) rc = zck_delta_size_main(k->nargs + 1, argv);
        else if(!strcmp(k->tool, "zck_gen_zdict")) rc = zck_gen_zdict_main(k->nargs + 1, argv);
        else if(!strcmp(k->tool, "zckdl")) rc = zckdl_main(k->nargs + 1, argv);
        else die("unknown tool %s", k->tool);
        exit(rc);
    }
    int st = 0;
    while(waitpid(pid, &st, 0) < 0 && errno == EINTR) {}
    int code = WIFEXITED(st) ? WEXITSTATUS(st) : -1, sig = WIFSIGNALED(st) ? WTERMSIG(st) : 0;
    fprintf(out, "L %d exit=%d sig=%d killed=%d mismatch=%d calls=%d", idx, code, sig, code == 77, sh->mismatch, sh->calls);
    blob o = fd_contents(so);
    put_blob(out, "stdout", o.p, o.n);
    blob_free(&o);
    real_close(so);
    if(k->outs) {
        char *r = strdup(k->outs), *save = NULL;
        for(char *p = strtok_r(r, ",", &save); p; p = strtok_r(NULL, ",", &save)) {
            char path[4400];
            snprintf(path, sizeof path, "%s/%s", dir, p);
            if(access(path, F_OK) != 0) { fprintf(out, " f.%s=ABSENT", p); continue; }
            blob b = blob_from_file(path);
            char key[300];
            snprintf(key, sizeof key, "f.%s", p);
            put_blob(out, key, b.p, b.n);
            blob_free(&b);
        }
        free(r);
    }
    if(k->trace && sh->ntrace) fprintf(out, " trace=%s", sh->trace);
    fputc('\n', out);
    munmap(sh, sizeof *sh);
    rm_rf(dir);
    /* a sanitizer abort or a fatal signal of the tool is this case's crash */
    if(sig && sig != SIGALRM) { fflush(out); signal(sig, SIG_DFL); raise(sig); }
    if(code == 99) { fflush(out); VF_EXIT(99); }
}

int cmd_tool(FILE *job, FILE *out) {
    tctx c = {0};
    int cap = 0;
    tfile *files = NULL;
    int nfiles = 0;
    char *line;
    int chunk = 16, timeout = 20000;
    while((line = read_line(job))) {
        int n;
        char **t = split_ws(line, &n);
        if(n == 0) { free(t); free(line); continue; }
        if(!strcmp(t[0], "clear")) { files = NULL; nfiles = 0; }
        else if(!strcmp(t[0], "chunk")) chunk = atoi(t[1]);
        else if(!strcmp(t[0], "timeout")) timeout = atoi(t[1]);
        else if(!strcmp(t[0], "file")) {
            /* copy-on-write list so that earlier cases keep their view */
            tfile *nf = malloc((nfiles + 1) * sizeof *nf);
            if(nfiles) memcpy(nf, files, nfiles * sizeof *nf);
            int at = nfiles;
            for(int i = 0; i < nfiles; i++) if(!strcmp(nf[i].name, t[1])) at = i;
            nf[at].name = strdup(t[1]);
            nf[at].data = blob_arg(t[2]);
            files = nf;
            if(at == nfiles) nfiles++;
        } else if(!strcmp(t[0], "case")) {
            if(c.n >= cap) { cap = cap ? cap * 2 : 1024; c.cases = realloc(c.cases, cap * sizeof *c.cases); }
            tcase k;
            memset(&k, 0, sizeof k);
            k.files = files; k.nfiles = nfiles;
            k.tool = strdup(kv(t, n, "tool", "zck"));
            char *a = strdup(kv(t, n, "args", "")), *save = NULL;
            k.args = calloc(64, sizeof *k.args);
            for(char *p = strtok_r(a, ",", &save); p && k.nargs < 63; p = strtok_r(NULL, ",", &save)) {
                if(!strcmp(p, "-")) { k.args[k.nargs++] = strdup(""); continue; }
                blob b = blob_from_hex(p);
                k.args[k.nargs] = calloc(b.n + 1, 1);
                memcpy(k.args[k.nargs++], b.p, b.n);
                blob_free(&b);
            }
            k.closefds = (int)kvi(t, n, "closemask", 0);     /* bit i set: descriptor i is closed when the tool starts */
            if(kv(t, n, "closefds", NULL)) k.closefds = (1 << kvi(t, n, "closefds", 0)) - 1;
            k.nplan = parse_plan(kv(t, n, "plan", "-"), k.plan, 8);
            const char *r = kv(t, n, "roles", NULL);
            k.roles = r ? strdup(r) : NULL;
            k.trace = (int)kvi(t, n, "trace", 0);
            const char *o = kv(t, n, "out", NULL);
            k.outs = o ? strdup(o) : NULL;
            c.cases[c.n++] = k;
        } else die("tool: bad line %s", t[0]);
        free(t);
        free(line);
    }
    run_opts o = {.chunk = chunk, .timeout_ms = timeout};
    run_cases(c.n, run_one, &c, o, out);
    return 0;
}
