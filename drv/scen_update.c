/* The documented delta-update procedure (the loop of src/zck_dl.c) over the public API, with a reference range server
 * answering in-process.  Used by the update command (C04), under the kill seam (C11) and under I/O faults (C12).
 *
 * Server (trusted harness code, RFC 7233): holds file B; a request for one range is answered with a plain 206 body, a
 * request for several ranges with multipart/byteranges; last-byte positions beyond the file are clamped. */
#include "drv.h"
#include "scen.h"

static void srv_log(upd_res *r, const char *kind, const char *range) {
    if(r->nreq < UPD_MAXREQ) {
        snprintf(r->req[r->nreq].range, sizeof r->req[0].range, "%s", range);
        r->req[r->nreq].kind = kind[0];
        r->nreq++;
    }
}

typedef size_t (*body_cb)(void *, size_t, size_t, void *);

/* style bit 1 (values 2, 3): the client chains its own header and write callbacks behind the library's, as zck.h documents;
 * they accept everything.  zck_dl_reset() forgets them, so they are registered again after every reset. */
static long app_seen[2];
static size_t app_cb(void *p, size_t l, size_t c, void *d) { (void)p; *(long *)d += (long)(l * c); return l * c; }
static int app_register(const upd_cfg *cfg, zckDL *dl) {
    if(!(cfg->style & 2)) return 1;
    return zck_dl_set_header_cb(dl, app_cb) && zck_dl_set_header_data(dl, &app_seen[0]) &&
           zck_dl_set_write_cb(dl, app_cb) && zck_dl_set_write_data(dl, &app_seen[1]);
}

/* deliver one response; returns 1 when every callback accepted its data, 0 when the transfer was aborted */
static int serve(const upd_cfg *cfg, zckDL *dl, const char *range, body_cb cb, upd_res *res) {
    const blob *b = cfg->b;
    long rs[256][2];
    int nr = 0;
    for(const char *p = range; *p && nr < 256;) {
        char *e;
        long a = strtol(p, &e, 10);
        if(e == p || *e != '-') return 0;
        long z = strtol(e + 1, &e, 10);
        p = *e == ',' ? e + 1 : e;
        if(a < 0 || a > z) return 0;                 /* 416 */
        if((size_t)a >= b->n) return 0;              /* 416 */
        if((size_t)z >= b->n) z = b->n - 1;
        rs[nr][0] = a; rs[nr][1] = z; nr++;
    }
    if(nr == 0) return 0;
    char line[400];
    blob body;
    /* like real servers, a new boundary for every response */
    char bd[64];
    snprintf(bd, sizeof bd, "%s%d", (cfg->style & 1) ? "=_a+b(c)?." : "3d6b6a416f9b5", res->nreq);
#define HDR(...) do { int n_ = snprintf(line, sizeof line, __VA_ARGS__); blob h_ = blob_dup(line, n_); \
                      zck_header_cb((char *)h_.p, 1, h_.n, dl); blob_free(&h_); } while(0)
    HDR("HTTP/1.1 206 Partial Content\r\n");
    HDR("Accept-Ranges: bytes\r\n");
    if(nr == 1) {
        HDR("Content-Range: bytes %ld-%ld/%zu\r\n", rs[0][0], rs[0][1], b->n);
        HDR("Content-Length: %ld\r\n", rs[0][1] - rs[0][0] + 1);
        HDR("\r\n");
        body = blob_dup(b->p + rs[0][0], rs[0][1] - rs[0][0] + 1);
    } else {
        if(cfg->style & 1) HDR("content-type: multipart/byteranges; boundary=\"%s\"\r\n", bd);
        else HDR("Content-Type: multipart/byteranges; boundary=%s\r\n", bd);
        HDR("\r\n");
        body = blob_new(b->n + nr * 300 + 100);
        size_t n = 0;
        for(int i = 0; i < nr; i++) {
            n += sprintf((char *)body.p + n, "%s--%s\r\n", (i == 0 && (cfg->style & 1)) ? "" : "\r\n", bd);
            if(cfg->style & 1)
                n += sprintf((char *)body.p + n, "content-range: bytes %ld-%ld/%zu\r\nContent-Type: application/octet-stream\r\n\r\n", rs[i][0], rs[i][1], b->n);
            else
                n += sprintf((char *)body.p + n, "Content-Type: application/octet-stream\r\nContent-Range: bytes %ld-%ld/%zu\r\n\r\n", rs[i][0], rs[i][1], b->n);
            memcpy(body.p + n, b->p + rs[i][0], rs[i][1] - rs[i][0] + 1);
            n += rs[i][1] - rs[i][0] + 1;
        }
        n += sprintf((char *)body.p + n, "\r\n--%s--\r\n", bd);
        body.n = n;
    }
    res->body_bytes += body.n;
    size_t piece = cfg->piece > 0 ? (size_t)cfg->piece : 16384;
    int ok = 1;
    size_t stop = body.n;
    if(cb == (body_cb)zck_write_chunk_cb && cfg->abort_at >= 0 && !res->aborted) {
        res->aborted = 1;
        if((size_t)cfg->abort_at < body.n) { stop = (size_t)cfg->abort_at; ok = -1; }   /* the connection drops here */
    }
    for(size_t pos = 0; pos < stop; pos += piece) {
        size_t len = stop - pos < piece ? stop - pos : piece;
        blob pc = blob_dup(body.p + pos, len);
        size_t r = cb(pc.p, 1, len, dl);
        blob_free(&pc);
        if(r != len) { ok = 0; break; }
    }
    blob_free(&body);
    return ok;
}

/* dl_bytes of zck_dl.c */
static int dl_bytes(const upd_cfg *cfg, zckDL *dl, int fd, size_t bytes, size_t start, size_t *buffer_len, upd_res *res) {
    if(start + bytes > *buffer_len) {
        if(lseek(fd, *buffer_len, SEEK_SET) == -1) return 0;
        zck_dl_reset(dl);
        if(!app_register(cfg, dl)) return 0;
        char *range = zck_get_range(*buffer_len, (start + bytes) - 1);
        if(!range) return 0;
        srv_log(res, "header", range);
        int ok = serve(cfg, dl, range, zck_write_zck_header_cb, res);
        free(range);
        if(!ok) return 0;
        *buffer_len += start + bytes - *buffer_len;
        if(lseek(fd, start, SEEK_SET) == -1) return 0;
    }
    return 1;
}

static void snap_flags(zckCtx *zck, char *dst, size_t cap) {
    size_t n = 0;
    for(zckChunk *ch = zck_get_first_chunk(zck); ch && n + 1 < cap; ch = zck_get_next_chunk(ch)) {
        int v = zck_get_chunk_valid(ch);
        dst[n++] = v == 1 ? '+' : v == 0 ? '0' : v == -1 ? '!' : '?';
    }
    dst[n] = 0;
}

void update_run(const upd_cfg *cfg, int tfd, upd_res *res) {
    memset(res, 0, sizeof *res);
    res->status = UPD_INTERNAL;
    zckCtx *src = NULL;
    int sfd = -1;
    if(cfg->a) {
        sfd = tmp_file_with("ua", cfg->a->p, cfg->a->n);
        env_role(sfd, ROLE_SOURCE);
        src = zck_create();
        if(!src || !zck_init_read(src, sfd)) { res->status = UPD_SRC_OPEN; goto out0; }
    }
    zckCtx *tgt = zck_create();
    if(!tgt || !zck_init_adv_read(tgt, tfd)) { res->status = UPD_INTERNAL; goto out0; }
    zckDL *dl = zck_dl_init(tgt);
    if(!dl) goto out1;

    /* dl_header */
    size_t buffer_len = 0;
    if(!dl_bytes(cfg, dl, tfd, zck_get_min_download_size(), 0, &buffer_len, res)) { res->status = UPD_HEADER; goto out; }
    if(!zck_read_lead(tgt)) { res->status = UPD_HEADER; goto out; }
    size_t start = zck_get_lead_length(tgt);
    if(!dl_bytes(cfg, dl, tfd, zck_get_header_length(tgt) - start, start, &buffer_len, res)) { res->status = UPD_HEADER; goto out; }
    if(!zck_read_header(tgt)) { res->status = UPD_HEADER; goto out; }

    int rv = zck_find_valid_chunks(tgt);
    snap_flags(tgt, res->flags_scan, sizeof res->flags_scan);
    if(rv == 0) { res->status = UPD_SCAN; goto out; }
    if(rv == 1) {
        if(ftruncate(tfd, zck_get_length(tgt)) < 0) { res->status = UPD_TRUNCATE; goto out; }
        res->status = UPD_OK;
        res->complete_at_scan = 1;
        goto out;
    }
    if(src && !zck_copy_chunks(src, tgt)) { res->status = UPD_COPY; goto out; }
    snap_flags(tgt, res->flags_copy, sizeof res->flags_copy);
    zck_reset_failed_chunks(tgt);
    int guard = 0, nchunks = (int)zck_get_chunk_count(tgt);
    while(zck_missing_chunks(tgt) > 0) {
        if(++guard > nchunks + 5) { res->status = UPD_NOTERM; goto out; }
        zck_dl_reset(dl);
        if(!app_register(cfg, dl)) { res->status = UPD_INTERNAL; goto out; }
        zckRange *range = zck_get_missing_range(tgt, cfg->limit);
        if(range == NULL || !zck_dl_set_range(dl, range)) { res->status = UPD_RANGE; goto out; }
        char *rs = zck_get_range_char(src, range);
        if(rs == NULL) { res->status = UPD_RANGE; goto out; }
        srv_log(res, "chunk", rs);
        int ok = serve(cfg, dl, rs, zck_write_chunk_cb, res);
        free(rs);
        zck_dl_set_range(dl, NULL);
        zck_range_free(&range);
        if(ok == -1) { zck_clear_error(tgt); continue; }     /* dropped connection: same zckDL, next round */
        if(!ok) { res->status = UPD_TRANSFER; goto out; }
    }
    if(ftruncate(tfd, zck_get_length(tgt)) < 0) { res->status = UPD_TRUNCATE; goto out; }
    int v = zck_validate_data_checksum(tgt);
    res->status = v == 1 ? UPD_OK : UPD_VALIDATE;
out:
    snap_flags(tgt, res->flags_end, sizeof res->flags_end);
    res->missing_end = zck_missing_chunks(tgt);
    res->failed_end = zck_failed_chunks(tgt);
    snprintf(res->err, sizeof res->err, "%s", zck_get_error(tgt));
    zck_dl_free(&dl);
out1:
    zck_free(&tgt);
out0:
    if(src) zck_free(&src);
    if(sfd >= 0) real_close(sfd);
}

void upd_res_print(const upd_res *r, FILE *out) {
    fprintf(out, " status=%d scan=%s copy=%s end=%s missing=%d failed=%d atscan=%d body=%ld reqs=", r->status,
            r->flags_scan[0] ? r->flags_scan : "-", r->flags_copy[0] ? r->flags_copy : "-", r->flags_end[0] ? r->flags_end : "-",
            r->missing_end, r->failed_end, r->complete_at_scan, r->body_bytes);
    for(int i = 0; i < r->nreq; i++) fprintf(out, "%s%c:%s", i ? ";" : "", r->req[i].kind, r->req[i].range);
    if(!r->nreq) fputc('-', out);
    fprintf(out, " uerr=");
    put_hex(out, r->err, strlen(r->err) > 60 ? 60 : strlen(r->err));
}
