/* readenum: read mutants of a base file to the end with every schedule and classify the outcome (C02, C15, C18)
 *
 * job lines:
 *   scheds <s;s;...>         read-size schedules (each a cyclic comma list)
 *   base <blob>              base file
 *   expect <blob>            the base file's content
 *   recover <0|1>            1: clear the error after every failed read and read on (see libops.c)
 *   detail <0|1>             print a D line for every (mutant, schedule), not only for the unusual classes
 *   file <blob> [limit=<n>]  case: read this file
 *   subst <lo> <hi> vals=bits|all limit=<n>   one case per position, substitutes tried in-process
 *   trunc <lo> <hi>          one case per truncation length in [lo,hi)
 *   edit <pos> <ndel> <ins> [limit=<n>]  one case
 * classes per (mutant, schedule):
 *   o open failed | e read error | c close failed | s success, content == expect | S success, content != expect
 *   an upper-case E / C means: not a success, but the bytes released are not a prefix of expect of length <= limit
 * output: per case  K <idx> kind=.. pos=.. n=<mutants x schedules> o=.. e=.. c=.. s=.. S=.. E=.. C=..
 *         D <idx> cls=<c> val=<v> sched=<i> len=<n> content=<blob> rets=..    for classes S, E, C, and s when limit is set
 */
#include "drv.h"

typedef struct { char kind; long a, b; blob ins; long limit; int bits; blob *base, *expect; } rcase;
typedef struct {
    blob *cbase, *cexpect;   /* current state while parsing */
    blob base, expect;       /* of the running case */
    int **sc; int *ln; int ns;
    int detail;
    rcase *cases; int n;
} rctx;

typedef struct { long n, o, e, c, s, S, E, C; } tally;

static void classify(rctx *c, int idx, FILE *out, int fd, long limit, int val, tally *t) {
    for(int s = 0; s < c->ns; s++) {
        read_res r = lib_read_all(fd, c->sc[s], c->ln[s], c->expect.n * 4 + 65536, true);
        char cls;
        bool prefix_ok = r.content.n <= c->expect.n && (r.content.n == 0 || memcmp(r.content.p, c->expect.p, r.content.n) == 0);
        bool within = limit < 0 || (long)r.content.n <= limit;
        bool full = r.content.n == c->expect.n && prefix_ok;
        if(!r.open_ok) cls = 'o';
        else if(r.first_err_at || r.last_ret != 0 || r.runaway || r.overrun) cls = (prefix_ok && within) ? 'e' : 'E';
        else if(!r.close_ok) cls = (prefix_ok && within) ? 'c' : 'C';
        else cls = full ? 's' : 'S';
        t->n++;
        switch(cls) {
        case 'o': t->o++; break; case 'e': t->e++; break; case 'c': t->c++; break; case 's': t->s++; break;
        case 'S': t->S++; break; case 'E': t->E++; break; case 'C': t->C++; break;
        }
        bool print = c->detail || cls == 'S' || cls == 'E' || cls == 'C' || (cls == 's' && limit >= 0);
        if(print) {
            fprintf(out, "D %d cls=%c val=%d sched=%d len=%zu ferr=%d bbe=%zu", idx, cls, val, s, r.content.n, r.first_err_at,
                    r.bytes_before_err);
            put_blob(out, "content", r.content.p, r.content.n);
            fprintf(out, " rets=");
            for(int i = 0; i < r.nreads && i < 40; i++) fprintf(out, "%s%zd", i ? "," : "", r.rets[i]);
            fputc('\n', out);
        }
        read_res_free(&r);
    }
}

static void run_one(int idx, FILE *out, void *vctx) {
    rctx *c = vctx;
    rcase *k = &c->cases[idx];
    tally t = {0};
    if(!k->expect) die("readenum: no expect");
    c->expect = *k->expect;
    if(k->base) c->base = *k->base;
    if(k->kind == 's') {
        size_t pos = k->a;
        int fd = tmp_file_with("re", c->base.p, c->base.n);
        unsigned char orig = c->base.p[pos];
        if(k->bits) {
            for(int b = 0; b < 8; b++) {
                unsigned char v = orig ^ (1 << b);
                if(pwrite(fd, &v, 1, pos) != 1) die("pwrite");
                classify(c, idx, out, fd, k->limit, v, &t);
            }
        } else {
            for(int v = 0; v < 256; v++) {
                if(v == orig) continue;
                unsigned char b = v;
                if(pwrite(fd, &b, 1, pos) != 1) die("pwrite");
                classify(c, idx, out, fd, k->limit, v, &t);
            }
        }
        real_close(fd);
        fprintf(out, "K %d kind=subst pos=%zu", idx, pos);
    } else if(k->kind == 't') {
        int fd = tmp_file_with("re", c->base.p, k->a);
        classify(c, idx, out, fd, -1, -1, &t);
        real_close(fd);
        fprintf(out, "K %d kind=trunc pos=%ld", idx, k->a);
    } else {
        blob m;
        if(k->kind == 'f') m = blob_dup(k->ins.p, k->ins.n);
        else {
            size_t pos = k->a, del = k->b;
            if(pos > c->base.n) die("edit pos");
            if(pos + del > c->base.n) del = c->base.n - pos;
            m = blob_new(c->base.n - del + k->ins.n);
            memcpy(m.p, c->base.p, pos);
            memcpy(m.p + pos, k->ins.p, k->ins.n);
            memcpy(m.p + pos + k->ins.n, c->base.p + pos + del, c->base.n - pos - del);
        }
        int fd = tmp_file_with("re", m.p, m.n);
        classify(c, idx, out, fd, k->limit, -1, &t);
        real_close(fd);
        blob_free(&m);
        fprintf(out, "K %d kind=%s pos=%ld", idx, k->kind == 'f' ? "file" : "edit", k->a);
    }
    fprintf(out, " n=%ld o=%ld e=%ld c=%ld s=%ld S=%ld E=%ld C=%ld\n", t.n, t.o, t.e, t.c, t.s, t.S, t.E, t.C);
}

int cmd_readenum(FILE *job, FILE *out) {
    rctx c = {0};
    int cap = 0;
    char *line;
    int chunk = 16;
    while((line = read_line(job))) {
        int n;
        char **t = split_ws(line, &n);
        if(n == 0) { free(t); free(line); continue; }
        if(!strcmp(t[0], "scheds")) c.ns = parse_scheds(t[1], &c.sc, &c.ln);
        else if(!strcmp(t[0], "base")) { c.cbase = malloc(sizeof(blob)); *c.cbase = blob_arg(t[1]); }
        else if(!strcmp(t[0], "expect")) { c.cexpect = malloc(sizeof(blob)); *c.cexpect = blob_arg(t[1]); }
        else if(!strcmp(t[0], "detail")) c.detail = atoi(t[1]);
        else if(!strcmp(t[0], "recover")) g_read_recover = atoi(t[1]);
        else if(!strcmp(t[0], "chunk")) chunk = atoi(t[1]);
        else {
            if(!strcmp(t[0], "subst") || !strcmp(t[0], "trunc")) {
                long lo = atol(t[1]), hi = atol(t[2]);
                for(long p = lo; p < hi; p++) {
                    if(c.n >= cap) { cap = cap ? cap * 2 : 1024; c.cases = realloc(c.cases, cap * sizeof *c.cases); }
                    rcase k = {t[0][0] == 's' ? 's' : 't', p, 0, {0}, kvi(t, n, "limit", -1), !strcmp(kv(t, n, "vals", "all"), "bits"), c.cbase, c.cexpect};
                    c.cases[c.n++] = k;
                }
            } else if(!strcmp(t[0], "edit")) {
                if(c.n >= cap) { cap = cap ? cap * 2 : 1024; c.cases = realloc(c.cases, cap * sizeof *c.cases); }
                rcase k = {'e', atol(t[1]), atol(t[2]), blob_arg(t[3]), kvi(t, n, "limit", -1), 0, c.cbase, c.cexpect};
                c.cases[c.n++] = k;
            } else if(!strcmp(t[0], "file")) {
                if(c.n >= cap) { cap = cap ? cap * 2 : 1024; c.cases = realloc(c.cases, cap * sizeof *c.cases); }
                rcase k = {'f', 0, 0, blob_arg(t[1]), kvi(t, n, "limit", -1), 0, c.cbase, c.cexpect};
                c.cases[c.n++] = k;
            } else die("readenum: bad line %s", t[0]);
        }
        free(t);
        free(line);
    }
    if(c.ns == 0) die("readenum: no schedules");
    run_opts o = {.chunk = chunk, .timeout_ms = 10000, .confirm_hang = true};
    run_cases(c.n, run_one, &c, o, out);
    return 0;
}
