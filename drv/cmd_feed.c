/* feed: range responses delivered to the library's header and write callbacks under every fragmentation (C05, C17)
 *
 * job lines:
 *   tgt <blob>                 state: the complete new file B
 *   case tmark=<+|0 per chunk> limit=<n> hdr=<hex>[;<hex>...] body=<blob> cuts=<spec> [xflags=<flags> xfile=<blob> xerrby=<n>]
 *        fill=<byte>           byte value missing extents are pre-filled with (default 0xAA)
 *        hdr2=<hex>[;..] body2=<blob> between=<0|1|2|3>   a second response on the same zckDL: after the first one nothing (0),
 *                              zck_dl_set_range again (1), zck_dl_reset + a new zck_get_missing_range + zck_dl_set_range (2) zck_dl_reset alone (3), or a rescan + zck_reset_failed_chunks + reset + new request (4), then the
 *                              header lines hdr2 and the body body2 (whole, or one byte per call when cuts=all1)
 *        appcb=1               the application's own header and write callbacks are registered (zck_dl_set_header_cb, ..._write_cb,
 *                              with their data pointers) as zck.h documents; they accept everything and record what they were given -
 *                              the library's callbacks must behave as without them and hand every byte on exactly once
 *        cbshape=<0|1|2>       how (size, nmemb) of the fwrite-style callbacks are chosen for n bytes: (1, n) as libcurl does,
 *                              (n, 1), or (k, n/k) for the smallest k > 1 dividing n
 * cuts: "-" whole body in one invocation | all1 | k<n> n-byte pieces | c<a>,<b>,.. explicit cut offsets |
 *       sweep1[:lo:hi] every single cut | sweep2[:lo:hi] every pair of cuts (first cut in [lo,hi))
 * flow per partition (fresh target file and contexts each time): target = B's header + chunks marked '+' + fill
 * elsewhere; zck_init_read, zck_find_valid_chunks, zck_reset_failed_chunks, zck_get_missing_range(limit), zck_dl_init,
 * zck_dl_set_range, every header line to zck_header_cb, body pieces to zck_write_chunk_cb until one returns a size other
 * than the one given (the transport aborts there).
 * output: F <idx> n=<partitions> req=<range string hex> match=<n> (when an expectation was given)
 *         O <idx> cuts=<a,b> nb=<invocations> bad=<index|-1> badend=<body offset after the failing invocation> flags= file=<blob> cnt=<n>
 *           one per distinct outcome (without expectation) or for the first mismatching partitions (with expectation)
 */
#include "drv.h"

typedef struct {
    blob *tgt; char *tmark; int limit; blob hdr[8]; int nhdr; blob body; char *cuts;
    char *xflags; blob xfile; int has_x; long xerrby; int fill; int appcb, cbshape;
    blob hdr2[8]; int nhdr2; blob body2; int has2, between;
    long mask[16][2]; int nmask;   /* file byte ranges (inclusive) the expectation does not cover */
} fcase;
typedef struct { fcase *cases; int n; } fctx;

typedef struct { int nb, bad; long badend; char flags[64]; blob file; char req[256]; int ok; } outcome;

/* the application's callbacks: accept everything, keep a running digest-like sum and the byte count of what was handed on */
typedef struct { unsigned long n, sum; } app_seen;
static size_t app_cb(void *p, size_t l, size_t c, void *d) {
    app_seen *a = d;
    for(size_t i = 0; i < l * c; i++) a->sum = a->sum * 31 + ((unsigned char *)p)[i];
    a->n += l * c;
    return l * c;
}
static size_t app_hcb(void *p, size_t l, size_t c, void *d) { return app_cb(p, l, c, d); }

static void shape(int cbshape, size_t n, size_t *l, size_t *c) {
    *l = 1; *c = n;
    if(cbshape == 1) { *l = n; *c = 1; }
    else if(cbshape == 2) {
        for(size_t k = 2; k <= n && k < 64; k++) if(n % k == 0) { *l = k; *c = n / k; break; }
    }
}

static outcome run_partition(fcase *k, const blob *t0, const long *cuts, int ncuts) {
    outcome o;
    memset(&o, 0, sizeof o);
    o.bad = -1;
    int fd = tmp_file_with("ft", t0->p, t0->n);
    zckCtx *zck = zck_create();
    if(!zck_init_read(zck, fd)) die("feed: target does not open: %s", zck_get_error(zck));
    zck_find_valid_chunks(zck);
    zck_reset_failed_chunks(zck);
    zckRange *range = zck_get_missing_range(zck, k->limit);
    if(!range) die("feed: no range");
    char *rs = zck_get_range_char(zck, range);
    snprintf(o.req, sizeof o.req, "%s", rs ? rs : "");
    free(rs);
    zckDL *dl = zck_dl_init(zck);
    if(!dl) die("feed: dl init");
    zck_dl_set_range(dl, range);
    app_seen ah = {0, 0}, aw = {0, 0}, eh = {0, 0}, ew = {0, 0};
    if(k->appcb) {
        if(!zck_dl_set_header_cb(dl, (zck_wcb)app_hcb) || !zck_dl_set_header_data(dl, &ah) ||
           !zck_dl_set_write_cb(dl, (zck_wcb)app_cb) || !zck_dl_set_write_data(dl, &aw)) die("feed: cannot register callbacks");
    }
    for(int i = 0; i < k->nhdr; i++) {
        /* the transport hands out header lines in its own buffer, not NUL terminated */
        blob h = blob_dup(k->hdr[i].p, k->hdr[i].n);
        size_t l, c;
        shape(k->cbshape, h.n, &l, &c);
        app_cb(h.p, 1, h.n, &eh);
        zck_header_cb((char *)h.p, l, c, dl);
        blob_free(&h);
    }
    long pos = 0;
    for(int i = 0; i <= ncuts; i++) {
        long end = i < ncuts ? cuts[i] : (long)k->body.n;
        if(end <= pos) continue;
        /* exact-size heap copy: an over-read of the piece is visible to the sanitizer */
        blob piece = blob_dup(k->body.p + pos, end - pos);
        size_t l, c;
        shape(k->cbshape, piece.n, &l, &c);
        size_t r = zck_write_chunk_cb(piece.p, l, c, dl);
        o.nb++;
        if(r != (size_t)(end - pos)) { o.bad = o.nb - 1; o.badend = end; blob_free(&piece); break; }
        app_cb(piece.p, 1, piece.n, &ew);
        blob_free(&piece);
        pos = end;
    }
    if(k->has2 && o.bad < 0) {
        if(k->between == 4) {
            /* a careful client after a dropped connection: scan the target again, forget failed chunks (the file position is now
             * wherever the scan left it), then reset and ask anew */
            zck_clear_error(zck);
            zck_find_valid_chunks(zck);
            zck_reset_failed_chunks(zck);
        }
        if(k->between == 2 || k->between == 3 || k->between == 4) zck_dl_reset(dl);
        if(k->between == 2 || k->between == 4) {
            /* what the documented client does between two requests: a new request for what is still missing */
            zck_range_free(&range);
            zck_clear_error(zck);
            range = zck_get_missing_range(zck, k->limit);
            if(!range) die("feed: no second range");
        }
        if(k->between == 1 || k->between == 2 || k->between == 4) zck_dl_set_range(dl, range);
        for(int i = 0; i < k->nhdr2; i++) {
            blob h = blob_dup(k->hdr2[i].p, k->hdr2[i].n);
            zck_header_cb((char *)h.p, 1, h.n, dl);
            blob_free(&h);
        }
        size_t step = !strcmp(k->cuts, "all1") ? 1 : (k->body2.n ? k->body2.n : 1);
        for(size_t q = 0; q < k->body2.n; q += step) {
            size_t len = k->body2.n - q < step ? k->body2.n - q : step;
            blob piece = blob_dup(k->body2.p + q, len);
            size_t r = zck_write_chunk_cb(piece.p, 1, len, dl);
            blob_free(&piece);
            o.nb++;
            if(r != len) { o.bad = o.nb - 1; o.badend = -3; break; }
        }
    }
    /* every accepted byte must have reached the application's callbacks, once and in order (an invocation the library refused
     * may or may not have been handed on); reported as an invocation failure so that every oracle sees it */
    if(k->appcb && !k->has2 && o.bad < 0 && (ah.n != eh.n || ah.sum != eh.sum || aw.n != ew.n || aw.sum != ew.sum)) { o.bad = 9999; o.badend = -2; }
    int n = 0;
    zck_clear_error(zck);   /* a recoverable error left by a refused response must not hide the markings */
    for(zckChunk *ch = zck_get_first_chunk(zck); ch && n < 62; ch = zck_get_next_chunk(ch)) {
        int v = zck_get_chunk_valid(ch);
        o.flags[n++] = v == 1 ? '+' : v == 0 ? '0' : v == -1 ? '!' : '?';
    }
    o.flags[n] = 0;
    o.file = fd_contents(fd);
    zck_dl_free(&dl);
    zck_range_free(&range);
    zck_free(&zck);
    real_close(fd);
    return o;
}

static bool as_expected(fcase *k, const outcome *o, const long *cuts, int ncuts) {
    if(strlen(o->flags) != strlen(k->xflags)) return false;
    for(int i = 0; k->xflags[i]; i++) {
        if(k->xflags[i] == 'x') { if(o->flags[i] == '+') return false; }   /* x: anything but valid */
        else if(k->xflags[i] != o->flags[i]) return false;
    }
    if(o->file.n != k->xfile.n) return false;
    if(k->nmask == 0) {
        if(memcmp(o->file.p, k->xfile.p, o->file.n)) return false;
    } else {
        for(size_t q = 0; q < o->file.n; q++) {
            if(o->file.p[q] == k->xfile.p[q]) continue;
            bool masked = false;
            for(int m = 0; m < k->nmask; m++) if((long)q >= k->mask[m][0] && (long)q <= k->mask[m][1]) masked = true;
            if(!masked) return false;
        }
    }
    if(k->xerrby < 0) return o->bad == -1;
    if(o->bad < 0) return false;
    /* the failing invocation must be the one that delivers byte xerrby, or an earlier one */
    long start_of_bad = 0;
    int inv = 0;
    long pos = 0;
    for(int i = 0; i <= ncuts; i++) {
        long end = i < ncuts ? cuts[i] : (long)k->body.n;
        if(end <= pos) continue;
        if(inv == o->bad) { start_of_bad = pos; break; }
        inv++;
        pos = end;
    }
    return start_of_bad <= k->xerrby;
}

typedef struct { outcome o; long c0, c1; long cnt; } seen_t;

static void print_outcome(FILE *out, int idx, const outcome *o, long c0, long c1, long cnt) {
    fprintf(out, "O %d cuts=%ld,%ld nb=%d bad=%d badend=%ld flags=%s cnt=%ld", idx, c0, c1, o->nb, o->bad, o->badend,
            o->flags[0] ? o->flags : "-", cnt);
    put_blob(out, "file", o->file.p, o->file.n);
    fputc('\n', out);
}

static void run_one(int idx, FILE *out, void *vctx) {
    fctx *c = vctx;
    fcase *k = &c->cases[idx];
    /* initial target */
    int bfd = tmp_file_with("fb", k->tgt->p, k->tgt->n);
    zckCtx *b = zck_create();
    if(!zck_init_read(b, bfd)) die("feed: B does not open: %s", zck_get_error(b));
    size_t hl = zck_get_header_length(b);
    blob t0 = blob_new(k->tgt->n);
    memset(t0.p, k->fill, t0.n);
    memcpy(t0.p, k->tgt->p, hl);
    int nch = 0;
    for(zckChunk *ch = zck_get_first_chunk(b); ch; ch = zck_get_next_chunk(ch), nch++) {
        if(k->tmark[nch] == 0) die("feed: tmark too short");
        if(k->tmark[nch] == '+')
            memcpy(t0.p + zck_get_chunk_start(ch), k->tgt->p + zck_get_chunk_start(ch), zck_get_chunk_comp_size(ch));
    }
    zck_free(&b);
    real_close(bfd);

    long n = k->body.n;
    long nparts = 0, nmatch = 0;
    int printed = 0;
    seen_t seen[24];
    int nseen = 0;
    char req[256] = "";
#define HANDLE(o_, c0_, c1_, cutv_, nc_) do { \
        nparts++; \
        if(!req[0]) snprintf(req, sizeof req, "%s", (o_).req); \
        if(k->has_x) { \
            if(as_expected(k, &(o_), cutv_, nc_)) nmatch++; \
            else if(printed < 3) { print_outcome(out, idx, &(o_), c0_, c1_, 1); printed++; } \
            blob_free(&(o_).file); \
        } else { \
            int f_ = -1; \
            for(int s_ = 0; s_ < nseen; s_++) \
                if(!strcmp(seen[s_].o.flags, (o_).flags) && (seen[s_].o.bad < 0) == ((o_).bad < 0) && \
                   seen[s_].o.file.n == (o_).file.n && !memcmp(seen[s_].o.file.p, (o_).file.p, (o_).file.n)) { f_ = s_; break; } \
            if(f_ >= 0) { seen[f_].cnt++; blob_free(&(o_).file); } \
            else if(nseen < 24) { seen[nseen].o = (o_); seen[nseen].c0 = c0_; seen[nseen].c1 = c1_; seen[nseen].cnt = 1; nseen++; } \
            else { print_outcome(out, idx, &(o_), c0_, c1_, 1); blob_free(&(o_).file); } \
        } \
    } while(0)

    const char *cs = k->cuts;
    if(!strcmp(cs, "-")) {
        outcome o = run_partition(k, &t0, NULL, 0);
        HANDLE(o, -1L, -1L, NULL, 0);
    } else if(!strcmp(cs, "all1") || cs[0] == 'k') {
        long step = cs[0] == 'k' ? atol(cs + 1) : 1;
        if(step <= 0) die("feed: bad k");
        long nc = n > 0 ? (n - 1) / step : 0;
        long *cv = malloc((nc + 1) * sizeof *cv);
        for(long i = 0; i < nc; i++) cv[i] = (i + 1) * step;
        outcome o = run_partition(k, &t0, cv, (int)nc);
        HANDLE(o, step, -1L, cv, (int)nc);
        free(cv);
    } else if(cs[0] == 'c') {
        int nc;
        int *ci = parse_int_list(cs + 1, &nc);
        long cv[64];
        if(nc > 64) die("feed: too many cuts");
        for(int i = 0; i < nc; i++) cv[i] = ci[i];
        outcome o = run_partition(k, &t0, cv, nc);
        HANDLE(o, nc > 0 ? cv[0] : -1, nc > 1 ? cv[1] : -1, cv, nc);
        free(ci);
    } else if(!strncmp(cs, "sweep", 5)) {
        int two = cs[5] == '2';
        long lo = 1, hi = n;
        if(cs[6] == ':') sscanf(cs + 7, "%ld:%ld", &lo, &hi);
        if(hi > n) hi = n;
        for(long a = lo; a < hi; a++) {
            if(!two) {
                long cv[1] = {a};
                outcome o = run_partition(k, &t0, cv, 1);
                HANDLE(o, a, -1L, cv, 1);
            } else {
                for(long b2 = a + 1; b2 < n; b2++) {
                    long cv[2] = {a, b2};
                    outcome o = run_partition(k, &t0, cv, 2);
                    HANDLE(o, a, b2, cv, 2);
                }
            }
        }
    } else die("feed: bad cuts %s", cs);
    for(int s = 0; s < nseen; s++) {
        print_outcome(out, idx, &seen[s].o, seen[s].c0, seen[s].c1, seen[s].cnt);
        blob_free(&seen[s].o.file);
    }
    fprintf(out, "F %d n=%ld match=%ld req=", idx, nparts, nmatch);
    put_hex(out, req, strlen(req));
    fputc('\n', out);
    blob_free(&t0);
}

int cmd_feed(FILE *job, FILE *out) {
    fctx c = {0};
    int cap = 0;
    blob *tgt = NULL;
    char *line;
    int chunk = 16, timeout = 20000;
    while((line = read_line(job))) {
        int n;
        char **t = split_ws(line, &n);
        if(n == 0) { free(t); free(line); continue; }
        if(!strcmp(t[0], "tgt")) { tgt = malloc(sizeof *tgt); *tgt = blob_arg(t[1]); }
        else if(!strcmp(t[0], "chunk")) chunk = atoi(t[1]);
        else if(!strcmp(t[0], "timeout")) timeout = atoi(t[1]);
        else if(!strcmp(t[0], "case")) {
            if(!tgt) die("feed: case before tgt");
            if(c.n >= cap) { cap = cap ? cap * 2 : 1024; c.cases = realloc(c.cases, cap * sizeof *c.cases); }
            fcase k;
            memset(&k, 0, sizeof k);
            k.tgt = tgt;
            k.tmark = strdup(kv(t, n, "tmark", ""));
            k.limit = (int)kvi(t, n, "limit", -1);
            k.fill = (int)kvi(t, n, "fill", 0xAA);
            char *h = strdup(kv(t, n, "hdr", "-")), *save = NULL;
            for(char *p = strtok_r(h, ";", &save); p && k.nhdr < 8; p = strtok_r(NULL, ";", &save))
                if(strcmp(p, "-")) k.hdr[k.nhdr++] = blob_from_hex(p);
            free(h);
            k.body = blob_arg(kv(t, n, "body", "-"));
            k.cuts = strdup(kv(t, n, "cuts", "-"));
            if(kv(t, n, "body2", NULL)) {
                k.has2 = 1;
                k.between = (int)kvi(t, n, "between", 0);
                k.body2 = blob_arg(kv(t, n, "body2", "-"));
                char *h2 = strdup(kv(t, n, "hdr2", "-")), *sv = NULL;
                for(char *p = strtok_r(h2, ";", &sv); p && k.nhdr2 < 8; p = strtok_r(NULL, ";", &sv))
                    if(strcmp(p, "-")) k.hdr2[k.nhdr2++] = blob_from_hex(p);
                free(h2);
            }
            k.appcb = (int)kvi(t, n, "appcb", 0);
            k.cbshape = (int)kvi(t, n, "cbshape", 0);
            const char *xf = kv(t, n, "xflags", NULL);
            if(xf) {
                k.has_x = 1;
                k.xflags = strdup(xf);
                k.xfile = blob_arg(kv(t, n, "xfile", "-"));
                k.xerrby = kvi(t, n, "xerrby", -1);
                const char *xm = kv(t, n, "xmask", NULL);
                while(xm && *xm && k.nmask < 16) {
                    char *e;
                    k.mask[k.nmask][0] = strtol(xm, &e, 10);
                    if(*e != '-') die("feed: bad xmask");
                    k.mask[k.nmask][1] = strtol(e + 1, &e, 10);
                    k.nmask++;
                    xm = *e == ',' ? e + 1 : e;
                }
            }
            c.cases[c.n++] = k;
        } else die("feed: bad line %s", t[0]);
        free(t);
        free(line);
    }
    run_opts o = {.chunk = chunk, .timeout_ms = timeout};
    run_cases(c.n, run_one, &c, o, out);
    return 0;
}
