/* copy: local chunk reuse (C08)
 *
 * job lines:
 *   tgt <blob>                    state: the complete new file B (its header and correct chunks)
 *   src1 <blob> / src2 <blob>     state: source files as they are on disk (possibly damaged or crafted); "-" = none
 *   case tmark=<+|0 per chunk> seq=<ops>     ops: c1|c2 zck_copy_chunks(src, tgt), m1|m2 zck_find_matching_chunks(src, tgt),
 *                                            vt|v1 zck_validate_lead() on the opened target / source,
 *                                            nt|n1|n2 zck_set_ioption(ZCK_NO_WRITE, 1) on the target / a source (a rarely used mode that
 *                                            read contexts accept; what the copy then claims must still be true of the file)
 * flow: the target gets B's header, the chunks marked '+' and 0xAA elsewhere; zck_init_read, zck_find_valid_chunks,
 * zck_reset_failed_chunks; then the operations in order on the same contexts.
 * output: P <idx> topen= s1open= s2open= flags0=
 *         Q <idx> step=<k> op=<op> ret=<0|1> flags=<...> tfile=<blob> [pairs=<tgtno>:<srcno>:<srcdigest>:<srculen>:<srcudigest>,...]
 *         Z <idx> s1same= s2same=
 */
#include "drv.h"

typedef struct { blob *tgt, *src[2]; char *tmark, *seq; } pcase;
typedef struct { pcase *cases; int n; } pctx;

static void run_one(int idx, FILE *out, void *vctx) {
    pctx *c = vctx;
    pcase *k = &c->cases[idx];
    int bfd = tmp_file_with("cb", k->tgt->p, k->tgt->n);
    zckCtx *b = zck_create();
    if(!zck_init_read(b, bfd)) die("copy: B does not open: %s", zck_get_error(b));
    size_t hl = zck_get_header_length(b);
    blob t0 = blob_new(k->tgt->n);
    memset(t0.p, 0xAA, t0.n);
    memcpy(t0.p, k->tgt->p, hl);
    int nch = 0;
    for(zckChunk *ch = zck_get_first_chunk(b); ch; ch = zck_get_next_chunk(ch), nch++) {
        if(k->tmark[nch] == 0) die("copy: tmark too short");
        if(k->tmark[nch] == '+')
            memcpy(t0.p + zck_get_chunk_start(ch), k->tgt->p + zck_get_chunk_start(ch), zck_get_chunk_comp_size(ch));
    }
    zck_free(&b);
    real_close(bfd);
    int tfd = tmp_file_with("ct", t0.p, t0.n);
    zckCtx *tgt = zck_create();
    int topen = zck_init_read(tgt, tfd);
    int sfd[2] = {-1, -1};
    zckCtx *src[2] = {NULL, NULL};
    int sopen[2] = {-1, -1};
    for(int i = 0; i < 2; i++) {
        if(!k->src[i]) continue;
        sfd[i] = tmp_file_with("cs", k->src[i]->p, k->src[i]->n);
        src[i] = zck_create();
        sopen[i] = zck_init_read(src[i], sfd[i]);
    }
    fprintf(out, "P %d topen=%d s1open=%d s2open=%d", idx, topen, sopen[0], sopen[1]);
    if(!topen) { fputc('\n', out); return; }
    zck_find_valid_chunks(tgt);
    zck_reset_failed_chunks(tgt);
    dump_flags(tgt, out, "flags0");
    fputc('\n', out);
    char *ops = strdup(k->seq), *save = NULL;
    int step = 0;
    for(char *o = strtok_r(ops, ",", &save); o; o = strtok_r(NULL, ",", &save), step++) {
        int si = o[1] == '2' ? 1 : 0;
        if(o[0] == 'n' || o[0] == 'v') {
            /* n: ZCK_NO_WRITE; v: zck_validate_lead() on the already opened context (it re-reads the lead from the start of the
             * file and leaves the context where it was - a caller that checks a pinned header again before trusting the file) */
            zckCtx *z = o[1] == 't' ? tgt : src[si];
            int r = !z ? -1 : o[0] == 'n' ? zck_set_ioption(z, ZCK_NO_WRITE, 1) : zck_validate_lead(z);
            if(z && !r) zck_clear_error(z);
            fprintf(out, "Q %d step=%d op=%s ret=%d", idx, step, o, r);
            dump_flags(tgt, out, "flags");
            blob tf = fd_contents(tfd);
            put_blob(out, "tfile", tf.p, tf.n);
            blob_free(&tf);
            fputc('\n', out);
            continue;
        }
        if(!src[si] || sopen[si] != 1) {
            fprintf(out, "Q %d step=%d op=%s ret=skipped\n", idx, step, o);
            continue;
        }
        int r;
        if(o[0] == 'c') r = zck_copy_chunks(src[si], tgt);
        else if(o[0] == 'm') r = zck_find_matching_chunks(src[si], tgt);
        else die("copy: bad op %s", o);
        fprintf(out, "Q %d step=%d op=%s ret=%d", idx, step, o, r);
        dump_flags(tgt, out, "flags");
        blob tf = fd_contents(tfd);
        put_blob(out, "tfile", tf.p, tf.n);
        blob_free(&tf);
        if(o[0] == 'm') {
            fprintf(out, " pairs=");
            int np = 0;
            for(zckChunk *ch = zck_get_first_chunk(tgt); ch; ch = zck_get_next_chunk(ch)) {
                zckChunk *s = zck_get_src_chunk(ch);
                if(zck_get_chunk_valid(ch) != 1 || !s || s == ch) continue;
                if(zck_get_chunk_ctx(s) == tgt) continue;
                char *d = zck_get_chunk_digest(s), *u = zck_get_chunk_digest_uncompressed(s);
                fprintf(out, "%s%zd:%zd:%s:%zd:%zd:%s", np++ ? "," : "", zck_get_chunk_number(ch), zck_get_chunk_number(s), d ? d : "NULL",
                        zck_get_chunk_comp_size(s), zck_get_chunk_size(s), u ? u : "-");
                free(d);
                free(u);
            }
            if(!np) fputc('-', out);
        }
        fputc('\n', out);
    }
    free(ops);
    fprintf(out, "Z %d", idx);
    for(int i = 0; i < 2; i++) {
        if(!k->src[i]) { fprintf(out, " s%dsame=1", i + 1); continue; }
        blob a = fd_contents(sfd[i]);
        fprintf(out, " s%dsame=%d", i + 1, a.n == k->src[i]->n && (a.n == 0 || memcmp(a.p, k->src[i]->p, a.n) == 0));
        blob_free(&a);
    }
    fputc('\n', out);
    for(int i = 0; i < 2; i++) if(src[i]) { zck_free(&src[i]); real_close(sfd[i]); }
    zck_free(&tgt);
    real_close(tfd);
    blob_free(&t0);
}

int cmd_copy(FILE *job, FILE *out) {
    pctx c = {0};
    int cap = 0;
    blob *tgt = NULL, *src[2] = {NULL, NULL};
    char *line;
    while((line = read_line(job))) {
        int n;
        char **t = split_ws(line, &n);
        if(n == 0) { free(t); free(line); continue; }
        if(!strcmp(t[0], "tgt")) { tgt = malloc(sizeof *tgt); *tgt = blob_arg(t[1]); }
        else if(!strcmp(t[0], "src1") || !strcmp(t[0], "src2")) {
            int i = t[0][3] == '2';
            if(!strcmp(t[1], "-")) src[i] = NULL;
            else { src[i] = malloc(sizeof(blob)); *src[i] = blob_arg(t[1]); }
        } else if(!strcmp(t[0], "case")) {
            if(!tgt) die("copy: case before tgt");
            if(c.n >= cap) { cap = cap ? cap * 2 : 1024; c.cases = realloc(c.cases, cap * sizeof *c.cases); }
            pcase k = {tgt, {src[0], src[1]}, strdup(kv(t, n, "tmark", "")), strdup(kv(t, n, "seq", "c1"))};
            c.cases[c.n++] = k;
        } else die("copy: bad line %s", t[0]);
        free(t);
        free(line);
    }
    run_opts o = {.chunk = 64, .timeout_ms = 10000, .confirm_hang = true};
    run_cases(c.n, run_one, &c, o, out);
    return 0;
}
