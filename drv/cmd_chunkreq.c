/* chunkreq: every request sequence over chunk indices up to a depth, each on a fresh context (C14)
 *   file <blob>
 *   depth <n>
 *   seq <ops>      explicit sequence (replay): ops like d0,s2,d2
 * alphabet: d<i> = zck_get_chunk_data(chunk i, buffer of its declared size), s<i> = zck_get_chunk_comp_data(chunk i,
 * buffer of its stored size; "slack <k>": buffers k bytes larger than that).  With "extra 1" the alphabet also has history operations whose own results are reported but
 * not judged: r1 / r40 = zck_read of 1 / 40 bytes on the same context, V = zck_validate_checksums, F = zck_find_valid_chunks
 * (codes 2n .. 2n+3), p<i> = zck_get_chunk_data(chunk i) into a buffer of half the chunk's size (codes 2n+4 ..).  One case per
 * sequence.
 * output: Q <idx> seq=<ops> res=<ret:hex;ret:hex;...>
 */
#include "drv.h"

typedef struct { blob file; int depth; int nchunks; int alpha; int extra; int slack; long *starts; long total; char **explicit_seq; int nexp; } qctx;

static void do_seq(qctx *c, const int *ops, int n, int idx, FILE *out) {
    int fd = tmp_file_with("cr", c->file.p, c->file.n);
    zckCtx *zck = zck_create();
    fprintf(out, "Q %d seq=", idx);
    static const char *xname[] = {"r1", "r40", "V", "F"};
    for(int i = 0; i < n; i++) {
        if(ops[i] >= 2 * c->nchunks + 4) fprintf(out, "%sp%d", i ? "," : "", ops[i] - 2 * c->nchunks - 4);
        else if(ops[i] >= 2 * c->nchunks) fprintf(out, "%s%s", i ? "," : "", xname[ops[i] - 2 * c->nchunks]);
        else fprintf(out, "%s%c%d", i ? "," : "", ops[i] % 2 ? 's' : 'd', ops[i] / 2);
    }
    if(!n) fputc('-', out);
    if(!zck_init_read(zck, fd)) {
        fprintf(out, " res=OPENFAIL\n");
        zck_free(&zck);
        real_close(fd);
        return;
    }
    fprintf(out, " res=");
    for(int i = 0; i < n; i++) {
        if(ops[i] >= 2 * c->nchunks + 4) {
            zckChunk *ch = zck_get_chunk(zck, ops[i] - 2 * c->nchunks - 4);
            char tmp[4096];
            ssize_t sz = ch ? zck_get_chunk_size(ch) : 0;
            long r = ch ? (long)zck_get_chunk_data(ch, tmp, sz / 2 > 0 ? (size_t)sz / 2 : 1) : -9;
            fprintf(out, "%sx%lde%d", i ? ";" : "", r, zck_is_error(zck));
            continue;
        }
        if(ops[i] >= 2 * c->nchunks) {
            int x = ops[i] - 2 * c->nchunks;
            char tmp[64];
            long r = x == 0 ? zck_read(zck, tmp, 1) : x == 1 ? zck_read(zck, tmp, 40) : x == 2 ? zck_validate_checksums(zck) : zck_find_valid_chunks(zck);
            fprintf(out, "%sx%lde%d", i ? ";" : "", r, zck_is_error(zck));
            continue;
        }
        zckChunk *ch = zck_get_chunk(zck, ops[i] / 2);
        if(!ch) { fprintf(out, "%sNOCHUNK", i ? ";" : ""); continue; }
        ssize_t want = ops[i] % 2 ? zck_get_chunk_comp_size(ch) : zck_get_chunk_size(ch);
        if(want < 0) want = 0;
        /* slack: the caller's buffer is larger than the chunk (a scratch buffer); what comes back must still be the chunk */
        ssize_t cap = want + c->slack;
        char *buf = calloc(cap + 1, 1);
        ssize_t r = ops[i] % 2 ? zck_get_chunk_comp_data(ch, buf, cap) : zck_get_chunk_data(ch, buf, cap);
        fprintf(out, "%s%zd:", i ? ";" : "", r);
        put_hex(out, buf, r > 0 ? (size_t)(r > cap ? cap : r) : 0);
        free(buf);
    }
    fputc('\n', out);
    zck_free(&zck);
    real_close(fd);
}

static void run_one(int idx, FILE *out, void *vctx) {
    qctx *c = vctx;
    int ops[16], n = 0;
    if(idx < c->nexp) {
        char *s = strdup(c->explicit_seq[idx]), *save = NULL;
        for(char *t = strtok_r(s, ",", &save); t && n < 16; t = strtok_r(NULL, ",", &save)) {
            if(!strcmp(t, "r1")) ops[n++] = 2 * c->nchunks;
            else if(!strcmp(t, "r40")) ops[n++] = 2 * c->nchunks + 1;
            else if(!strcmp(t, "V")) ops[n++] = 2 * c->nchunks + 2;
            else if(!strcmp(t, "F")) ops[n++] = 2 * c->nchunks + 3;
            else if(t[0] == 'p') ops[n++] = 2 * c->nchunks + 4 + atoi(t + 1);
            else ops[n++] = atoi(t + 1) * 2 + (t[0] == 's');
        }
        free(s);
        do_seq(c, ops, n, idx, out);
        return;
    }
    /* decode idx into a sequence: lengths 1..depth in order */
    long k = idx - c->nexp;
    int len = 1;
    long block = c->alpha;
    while(k >= block) { k -= block; len++; block *= c->alpha; }
    for(int i = len - 1; i >= 0; i--) { ops[i] = k % c->alpha; k /= c->alpha; }
    do_seq(c, ops, len, idx, out);
}

int cmd_chunkreq(FILE *job, FILE *out) {
    qctx c = {0};
    char *line;
    int cap = 0;
    while((line = read_line(job))) {
        int n;
        char **t = split_ws(line, &n);
        if(n >= 2 && !strcmp(t[0], "file")) c.file = blob_arg(t[1]);
        else if(n >= 2 && !strcmp(t[0], "depth")) c.depth = atoi(t[1]);
        else if(n >= 2 && !strcmp(t[0], "nchunks")) c.nchunks = atoi(t[1]);
        else if(n >= 2 && !strcmp(t[0], "extra")) c.extra = atoi(t[1]);
        else if(n >= 2 && !strcmp(t[0], "slack")) c.slack = atoi(t[1]);
        else if(n >= 2 && !strcmp(t[0], "seq")) {
            if(c.nexp >= cap) { cap = cap ? cap * 2 : 16; c.explicit_seq = realloc(c.explicit_seq, cap * sizeof(char *)); }
            c.explicit_seq[c.nexp++] = strdup(t[1]);
        }
        free(t);
        free(line);
    }
    c.alpha = c.nchunks * 2 + (c.extra ? 4 + c.nchunks : 0);
    long total = 0, block = c.alpha;
    for(int l = 1; l <= c.depth; l++) { total += block; block *= c.alpha; }
    run_opts o = {.chunk = 128, .timeout_ms = 10000, .confirm_hang = true};
    run_cases((int)total + c.nexp, run_one, &c, o, out);
    return 0;
}
