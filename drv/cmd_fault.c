/* fault: library read-side scenarios under environment plans (C12)
 *
 * job lines:
 *   file <blob>       state: the file to read / validate, or the complete new file B for copy
 *   src <blob>        state: the source file for copy
 *   case scen=read sched=<n,n..> plan=<...> trace=<0|1>
 *   case scen=validate ops=<V|D|F,...> plan= trace=
 *   case scen=copy tmark=<+|0...> plan= trace=
 *   case scen=chunkreq ops=<C<i>|S<i>,...> plan= trace=
 * every read, lseek and write on the scenario's descriptors is a choice point.
 * output: R <idx> open= last= rclose= content=<blob> ...        (read)
 *         S <idx> open= steps=<op>:<ret>:<flags>;...            (validate)
 *         P <idx> topen= sopen= ret= flags= tfile=<blob>        (copy)
 *         each followed by mismatch= calls= [trace=...]
 */
#include "drv.h"
#include "scen.h"

typedef struct { blob *file, *src; char *scen, *sched, *ops, *tmark; deviation plan[8]; int nplan, trace; } xcase;
typedef struct { xcase *cases; int n; } xctx;

static void finish(xcase *k, FILE *out) {
    env_enable(false);
    fprintf(out, " mismatch=%d calls=%d", env_plan_mismatch, env_calls());
    if(k->trace) env_print_trace(out);
    fputc('\n', out);
}

static void run_one(int idx, FILE *out, void *vctx) {
    xctx *c = vctx;
    xcase *k = &c->cases[idx];
    env_reset();
    env_set_plan(k->plan, k->nplan);
    if(!strcmp(k->scen, "read")) {
        int fd = tmp_file_with("xr", k->file->p, k->file->n);
        env_role(fd, ROLE_INPUT);
        int ns;
        int *sched = parse_int_list(k->sched, &ns);
        env_enable(true);
        read_res r = lib_read_all(fd, sched, ns, k->file->n * 4 + 65536, false);
        env_enable(false);
        fprintf(out, "R %d", idx);
        read_res_print(&r, out, false);
        read_res_free(&r);
        finish(k, out);
        real_close(fd);
    } else if(!strcmp(k->scen, "validate")) {
        int fd = tmp_file_with("xv", k->file->p, k->file->n);
        env_role(fd, ROLE_INPUT);
        env_enable(true);
        zckCtx *zck = zck_create();
        int op = zck_init_read(zck, fd);
        fprintf(out, "S %d open=%d steps=", idx, op);
        int ns = 0;
        if(op) {
            char *ops = strdup(k->ops), *save = NULL;
            for(char *o = strtok_r(ops, ",", &save); o; o = strtok_r(NULL, ",", &save)) {
                int r = o[0] == 'V' ? zck_validate_checksums(zck) : o[0] == 'D' ? zck_validate_data_checksum(zck) : zck_find_valid_chunks(zck);
                fprintf(out, "%s%c:%d:", ns++ ? ";" : "", o[0], r);
                bool was = true;
                env_enable(false);
                zck_clear_error(zck);
                for(zckChunk *ch = zck_get_first_chunk(zck); ch; ch = zck_get_next_chunk(ch)) {
                    int v = zck_get_chunk_valid(ch);
                    fputc(v == 1 ? '+' : v == 0 ? '0' : v == -1 ? '!' : '?', out);
                }
                env_enable(was);
            }
        }
        if(!ns) fputc('-', out);
        zck_free(&zck);
        finish(k, out);
        real_close(fd);
    } else if(!strcmp(k->scen, "chunkreq")) {
        /* chunk requests (ops: C<i> = data of chunk i, S<i> = stored bytes of chunk i) on one context; output
         * Q <idx> open= reqs=<op>:<ret>:<hex>;... - what a request returns with success is compared by the check */
        int fd = tmp_file_with("xq", k->file->p, k->file->n);
        env_role(fd, ROLE_INPUT);
        env_enable(true);
        zckCtx *zck = zck_create();
        int op = zck_init_read(zck, fd);
        fprintf(out, "Q %d open=%d reqs=", idx, op);
        int ns = 0;
        if(op) {
            char *ops = strdup(k->ops), *save = NULL;
            for(char *o = strtok_r(ops, ",", &save); o; o = strtok_r(NULL, ",", &save)) {
                zckChunk *ch = zck_get_chunk(zck, atoi(o + 1));
                static char tmp[65536];
                memset(tmp, 0x5a, 4096);
                long r = !ch ? -9 : o[0] == 'C' ? zck_get_chunk_data(ch, tmp, sizeof tmp) : zck_get_chunk_comp_data(ch, tmp, sizeof tmp);
                fprintf(out, "%s%s:%ld:", ns++ ? ";" : "", o, r);
                if(r > 0 && r <= (long)sizeof tmp) { for(long i = 0; i < r; i++) fprintf(out, "%02x", (unsigned char)tmp[i]); } else fputc('-', out);
                if(r < 0 && !zck_clear_error(zck)) break;     /* a caller that goes on after a failed request, when it may */
            }
            free(ops);
        }
        if(!ns) fputc('-', out);
        zck_free(&zck);
        finish(k, out);
        real_close(fd);
    } else if(!strcmp(k->scen, "copy")) {
        int bfd = tmp_file_with("xb", k->file->p, k->file->n);
        zckCtx *b = zck_create();
        if(!zck_init_read(b, bfd)) die("fault: B does not open");
        size_t hl = zck_get_header_length(b);
        blob t0 = blob_new(k->file->n);
        memset(t0.p, 0xAA, t0.n);
        memcpy(t0.p, k->file->p, hl);
        int nch = 0;
        for(zckChunk *ch = zck_get_first_chunk(b); ch; ch = zck_get_next_chunk(ch), nch++)
            if(k->tmark[nch] == '+')
                memcpy(t0.p + zck_get_chunk_start(ch), k->file->p + zck_get_chunk_start(ch), zck_get_chunk_comp_size(ch));
        zck_free(&b);
        real_close(bfd);
        int tfd = tmp_file_with("xt", t0.p, t0.n), sfd = tmp_file_with("xs", k->src->p, k->src->n);
        zckCtx *tgt = zck_create(), *src = zck_create();
        int topen = zck_init_read(tgt, tfd), sopen = zck_init_read(src, sfd);
        if(!topen || !sopen) die("fault: copy files do not open");
        zck_find_valid_chunks(tgt);
        zck_reset_failed_chunks(tgt);
        env_role(tfd, ROLE_TARGET);
        env_role(sfd, ROLE_SOURCE);
        env_enable(true);
        int r = zck_copy_chunks(src, tgt);
        env_enable(false);
        zck_clear_error(tgt);
        fprintf(out, "P %d topen=%d sopen=%d ret=%d", idx, topen, sopen, r);
        dump_flags(tgt, out, "flags");
        blob tf = fd_contents(tfd);
        put_blob(out, "tfile", tf.p, tf.n);
        blob_free(&tf);
        zck_free(&tgt);
        zck_free(&src);
        finish(k, out);
        real_close(tfd);
        real_close(sfd);
        blob_free(&t0);
    } else die("fault: unknown scenario %s", k->scen);
}

int cmd_fault(FILE *job, FILE *out) {
    xctx c = {0};
    int cap = 0;
    blob *file = NULL, *src = NULL;
    char *line;
    int chunk = 64;
    while((line = read_line(job))) {
        int n;
        char **t = split_ws(line, &n);
        if(n == 0) { free(t); free(line); continue; }
        if(!strcmp(t[0], "chunk")) chunk = atoi(t[1]);
        else if(!strcmp(t[0], "file")) { file = malloc(sizeof *file); *file = blob_arg(t[1]); }
        else if(!strcmp(t[0], "src")) { src = malloc(sizeof *src); *src = blob_arg(t[1]); }
        else if(!strcmp(t[0], "case")) {
            if(c.n >= cap) { cap = cap ? cap * 2 : 1024; c.cases = realloc(c.cases, cap * sizeof *c.cases); }
            xcase k;
            memset(&k, 0, sizeof k);
            k.file = file; k.src = src;
            k.scen = strdup(kv(t, n, "scen", "read"));
            k.sched = strdup(kv(t, n, "sched", "32768"));
            k.ops = strdup(kv(t, n, "ops", "V"));
            k.tmark = strdup(kv(t, n, "tmark", ""));
            k.nplan = parse_plan(kv(t, n, "plan", "-"), k.plan, 8);
            k.trace = (int)kvi(t, n, "trace", 0);
            c.cases[c.n++] = k;
        } else die("fault: bad line %s", t[0]);
        free(t);
        free(line);
    }
    run_opts o = {.chunk = chunk, .timeout_ms = 10000};
    run_cases(c.n, run_one, &c, o, out);
    return 0;
}
