/* meta: open a file / detached header and dump every public getter (C13)
 *   file <blob>     one case
 * output: M <idx> open=<0|1> err=<hex> [getter dump]
 */
#include "drv.h"
#include <sys/wait.h>

typedef struct { blob *files; int n; int allocfail; } mctx;

/* allocfail 1: after the clean open, the open is repeated with each single allocation answered with NULL (allocator seam);
 * an open that still succeeds must report exactly what the clean open reported.  Output: A <idx> allocs=<n> opened=<n> differ=<k,..|-> */
static char *meta_string(zckCtx *zck) {
    char *m = NULL; size_t mn = 0;
    FILE *mf = open_memstream(&m, &mn);
    dump_meta(zck, mf, "");
    fclose(mf);
    return m;
}

static void run_one(int idx, FILE *out, void *vctx) {
    mctx *c = vctx;
    int fd = tmp_file_with("meta", c->files[idx].p, c->files[idx].n);
    zckCtx *zck = zck_create();
    int ok = zck_init_read(zck, fd);
    fprintf(out, "M %d open=%d err=", idx, ok);
    const char *e = zck_get_error(zck);
    put_hex(out, e, strlen(e) > 70 ? 70 : strlen(e));
    if(ok) dump_meta(zck, out, "");
    fputc('\n', out);
    char *clean = ok && c->allocfail ? meta_string(zck) : NULL;
    zck_free(&zck);
    if(clean) {
        /* count the allocations of a clean open */
        real_lseek(fd, 0, SEEK_SET);
        env_alloc_count = 0; env_alloc_fail_at = -1; env_alloc_on = 1;
        zck = zck_create();
        zck_init_read(zck, fd);
        env_alloc_on = 0;
        int nalloc = env_alloc_count, nopen = 0, nd = 0;
        zck_free(&zck);
        fprintf(out, "A %d allocs=%d differ=", idx, nalloc);
        int nother = 0;
        for(int k = 0; k < nalloc + 1; k++) {
            /* each in a process of its own: the hash table code answers a failed allocation with exit() */
            fflush(NULL);
            pid_t pid = fork();
            if(pid < 0) die("fork");
            if(pid == 0) {
                die_with_parent();
                real_lseek(fd, 0, SEEK_SET);
                zck = zck_create();
                if(!zck) die("zck_create");
                env_alloc_count = 0; env_alloc_fail_at = k; env_alloc_on = 1;
                int ok2 = zck_init_read(zck, fd);
                env_alloc_on = 0; env_alloc_fail_at = -1;
                int rc = 10;
                if(ok2) {
                    char *m2 = meta_string(zck);
                    rc = strcmp(m2, clean) != 0 ? 12 : 11;
                }
                VF_EXIT(rc);
            }
            int st = 0;
            while(waitpid(pid, &st, 0) < 0 && errno == EINTR) {}
            int rc = WIFEXITED(st) ? WEXITSTATUS(st) : -1;
            if(rc == 11 || rc == 12) nopen++;
            if(rc == 12) { fprintf(out, "%s%d", nd ? "," : "", k); nd++; }
            if(rc != 10 && rc != 11 && rc != 12) nother++;
        }
        if(!nd) fputc('-', out);
        fprintf(out, " opened=%d other=%d\n", nopen, nother);
        free(clean);
    }
    real_close(fd);
}

int cmd_meta(FILE *job, FILE *out) {
    mctx c = {0};
    int cap = 0;
    char *line;
    while((line = read_line(job))) {
        int n;
        char **t = split_ws(line, &n);
        if(n >= 2 && !strcmp(t[0], "allocfail")) c.allocfail = atoi(t[1]);
        else if(n >= 2 && !strcmp(t[0], "file")) {
            if(c.n >= cap) { cap = cap ? cap * 2 : 4096; c.files = realloc(c.files, cap * sizeof *c.files); }
            c.files[c.n++] = blob_arg(t[1]);
        }
        free(t);
        free(line);
    }
    run_opts o = {.chunk = 256, .timeout_ms = 10000, .confirm_hang = true};
    run_cases(c.n, run_one, &c, o, out);
    return 0;
}
