/* meta: open a file / detached header and dump every public getter (C13)
 *   file <blob>     one case
 * output: M <idx> open=<0|1> err=<hex> [getter dump]
 */
#include "drv.h"

typedef struct { blob *files; int n; } mctx;

static void run_one(int idx, FILE *out, void *vctx) {
    mctx *c = vctx;
    int fd = tmp_file_with("meta", c->files[idx].p, c->files[idx].n);
    zckCtx *zck = zck_create();
    int ok = zck_init_read(zck, fd);
    fprintf(out, "M %d open=%d err=", idx, ok);
    const char *e = zck_get_error(zck);
    put_hex(out, e, strlen(e) > 70 ? 70 : strlen(e));
    if(ok) dump_meta(zck, out, "");
    fputc('\n', out);
    zck_free(&zck);
    real_close(fd);
}

int cmd_meta(FILE *job, FILE *out) {
    mctx c = {0};
    int cap = 0;
    char *line;
    while((line = read_line(job))) {
        int n;
        char **t = split_ws(line, &n);
        if(n >= 2 && !strcmp(t[0], "file")) {
            if(c.n >= cap) { cap = cap ? cap * 2 : 4096; c.files = realloc(c.files, cap * sizeof *c.files); }
            c.files[c.n++] = blob_arg(t[1]);
        }
        free(t);
        free(line);
    }
    run_opts o = {.chunk = 256, .timeout_ms = 10000};
    run_cases(c.n, run_one, &c, o, out);
    return 0;
}
