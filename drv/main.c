#include "drv.h"

static struct { const char *name; int (*fn)(FILE *, FILE *); } cmds[] = {
    {"openenum", cmd_openenum},
    {"writehist", cmd_writehist},
    {"compint", cmd_compint},
    {"hash", cmd_hash},
    {"pin", cmd_pin},
    {"meta", cmd_meta},
    {"chunkreq", cmd_chunkreq},
    {"readenum", cmd_readenum},
    {"scan", cmd_scan},
    {"ranges", cmd_ranges},
    {"copy", cmd_copy},
    {"feed", cmd_feed},
    {"update", cmd_update},
    {"tool", cmd_tool},
    {"fault", cmd_fault},
    {"sched", cmd_sched},
    {"apiseq", cmd_apiseq},
    {NULL, NULL}
};

const char *__asan_default_options(void) {
    return "exitcode=99:allocator_may_return_null=1:detect_leaks=0:abort_on_error=0:handle_abort=1:max_allocation_size_mb=512";
}
const char *__ubsan_default_options(void) { return "print_stacktrace=1:halt_on_error=0"; }
const char *__tsan_default_options(void) { return "exitcode=98:halt_on_error=0:report_signal_unsafe=0:history_size=7";   /* with the default history a race whose first access lies many events back is dropped silently (its stack cannot be restored) */ }

int main(int argc, char **argv) {
    if(argc < 2) die("usage: drv <cmd> [job] [out]");
    zck_set_log_level(ZCK_LOG_ERROR);
    FILE *job = argc > 2 && strcmp(argv[2], "-") ? fopen(argv[2], "r") : stdin;
    FILE *out = argc > 3 && strcmp(argv[3], "-") ? fopen(argv[3], "w") : stdout;
    if(!job || !out) die("cannot open job/out");
    for(int i = 0; cmds[i].name; i++)
        if(strcmp(cmds[i].name, argv[1]) == 0) {
            int r = cmds[i].fn(job, out);
            fprintf(out, "DONE\n");
            fflush(out);
            return r;
        }
    die("unknown command %s", argv[1]);
}
