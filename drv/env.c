/* Link-time environment seam.  The repository's objects are linked with -Wl,--wrap=<sym> for every OS call
 * they make on files, so each such call lands here first.  When the seam is enabled, every call on a
 * descriptor that carries a role is a *choice point*: it gets an ordinal k, the current plan may replace the
 * default answer (perform the call) by a failure, a short transfer or a kill, and the call is traced. */
#include "drv.h"
#include <stdarg.h>
#include <sys/stat.h>

extern ssize_t __real_read(int, void *, size_t);
extern ssize_t __real_write(int, const void *, size_t);
extern off_t __real_lseek(int, off_t, int);
extern off_t __real_lseek64(int, off_t, int);
extern int __real_close(int);
extern int __real_ftruncate(int, off_t);
extern int __real_ftruncate64(int, off_t);
extern int __real_mkstemp(char *);
extern int __real_mkstemp64(char *);
extern int __real_unlink(const char *);
extern int __real_open(const char *, int, ...);
extern int __real_open64(const char *, int, ...);

ssize_t real_read(int fd, void *b, size_t n) { return __real_read(fd, b, n); }
ssize_t real_write(int fd, const void *b, size_t n) { return __real_write(fd, b, n); }
off_t real_lseek(int fd, off_t o, int w) { return __real_lseek64(fd, o, w); }
int real_close(int fd) { return __real_close(fd); }
int real_ftruncate(int fd, off_t l) { return __real_ftruncate64(fd, l); }

/* ---- allocator seam: the k-th allocation made while the seam is armed can be answered with NULL ---- */
extern void *__real_malloc(size_t);
extern void *__real_calloc(size_t, size_t);
extern void *__real_realloc(void *, size_t);
int env_alloc_on = 0, env_alloc_count = 0, env_alloc_fail_at = -1;
static int alloc_fails(void) {
    if(!env_alloc_on) return 0;
    int k = env_alloc_count++;
    if(k == env_alloc_fail_at) { errno = ENOMEM; return 1; }
    return 0;
}
void *__wrap_malloc(size_t n) { return alloc_fails() ? NULL : __real_malloc(n); }
void *__wrap_calloc(size_t a, size_t b) { return alloc_fails() ? NULL : __real_calloc(a, b); }
void *__wrap_realloc(void *p, size_t n) { return alloc_fails() ? NULL : __real_realloc(p, n); }

#define MAXFD 1024
static unsigned char roles[MAXFD];
static int env_on = 0;
static int ncalls = 0;
static deviation plan[16];
static int nplan = 0;
int env_plan_mismatch = 0;

typedef struct { int k; char op; unsigned char role; long req; long res; int err; char dev; } trace_rec;
static trace_rec *trace = NULL;
static int ntrace = 0, captrace = 0;

#define MAXPATHROLES 8
static struct { char path[512]; int role; } path_roles[MAXPATHROLES];
static int npath_roles = 0;

void env_reset(void) {
    memset(roles, 0, sizeof roles);
    env_on = 0;
    ncalls = 0;
    nplan = 0;
    ntrace = 0;
    npath_roles = 0;
    env_plan_mismatch = 0;
}

void env_role(int fd, int role) {
    /* descriptor numbers are reused across threads: relaxed atomics keep the harness's own table out of the race reports */
    if(fd >= 0 && fd < MAXFD) __atomic_store_n(&roles[fd], (unsigned char)role, __ATOMIC_RELAXED);
}

void env_path_role(const char *path, int role) {
    if(npath_roles < MAXPATHROLES) {
        snprintf(path_roles[npath_roles].path, sizeof path_roles[0].path, "%s", path);
        path_roles[npath_roles++].role = role;
    }
}

void env_set_plan(const deviation *d, int n) {
    if(n > 16) die("plan too long");
    memcpy(plan, d, n * sizeof *d);
    nplan = n;
}

void env_enable(bool on) { env_on = on; }
int env_calls(void) { return ncalls; }

static int role_of(int fd) { return (fd >= 0 && fd < MAXFD) ? __atomic_load_n(&roles[fd], __ATOMIC_RELAXED) : 0; }

static void tr(int k, char op, int role, long req, long res, int err, char dev) {
    if(ntrace == captrace) {
        captrace = captrace ? captrace * 2 : 256;
        trace = realloc(trace, captrace * sizeof *trace);
    }
    trace_rec t = {k, op, (unsigned char)role, req, res, err, dev};
    trace[ntrace++] = t;
}

void env_dump_trace(FILE *o) {
    static const char *rn[] = {"none", "input", "output", "temp", "source", "target", "other"};
    for(int i = 0; i < ntrace; i++)
        fprintf(o, "T %d %c %s %ld %ld %d %c\n", trace[i].k, trace[i].op, rn[trace[i].role], trace[i].req, trace[i].res,
                trace[i].err, trace[i].dev ? trace[i].dev : '-');
}

int env_snprint_trace(char *dst, size_t cap) {
    static const char rn[] = "-iotsgx";
    size_t n = 0;
    for(int i = 0; i < ntrace && n + 80 < cap; i++)
        n += snprintf(dst + n, cap - n, "%s%d:%c:%c:%ld:%ld:%c", i ? "," : "", trace[i].k, trace[i].op, rn[trace[i].role], trace[i].req, trace[i].res,
                      trace[i].dev ? trace[i].dev : '-');
    if(n < cap) dst[n] = 0;
    return ntrace;
}

void env_print_trace(FILE *o) {
    static const char rn[] = "-iotsgx";
    fprintf(o, " trace=");
    for(int i = 0; i < ntrace; i++)
        fprintf(o, "%s%d:%c:%c:%ld:%ld:%c", i ? "," : "", trace[i].k, trace[i].op, rn[trace[i].role], trace[i].req, trace[i].res,
                trace[i].dev ? trace[i].dev : '-');
    if(!ntrace) fputc('-', o);
}

static const deviation *dev_for(int k) {
    for(int i = 0; i < nplan; i++)
        if(plan[i].k == k) return &plan[i];
    return NULL;
}

/* returns true if this call is a choice point (and assigns *k) */
static bool point(int fd, int *k) {
    if(sched_active) sched_point();
    if(!env_on) return false;
    if(role_of(fd) == ROLE_NONE) return false;
    *k = ncalls++;
    return true;
}

ssize_t __wrap_read(int fd, void *buf, size_t n) {
    int k;
    if(!point(fd, &k)) return __real_read(fd, buf, n);
    const deviation *d = dev_for(k);
    if(d && d->kind == DEV_FAIL) {
        tr(k, 'r', role_of(fd), n, -1, (int)d->arg, 'F');
        errno = (int)d->arg;
        return -1;
    }
    size_t req = n;
    char dv = 0;
    if(d && d->kind == DEV_SHORT) {
        if((size_t)d->arg < n) { n = d->arg; dv = 'S'; }
        else env_plan_mismatch = 1;
    } else if(d) env_plan_mismatch = 1;
    ssize_t r = __real_read(fd, buf, n);
    tr(k, 'r', role_of(fd), req, r, r < 0 ? errno : 0, dv);
    return r;
}

ssize_t __wrap_write(int fd, const void *buf, size_t n) {
    int k;
    if(!point(fd, &k)) return __real_write(fd, buf, n);
    const deviation *d = dev_for(k);
    if(d && d->kind == DEV_FAIL) {
        tr(k, 'w', role_of(fd), n, -1, (int)d->arg, 'F');
        errno = (int)d->arg;
        return -1;
    }
    if(d && d->kind == DEV_KILL) {
        size_t j = (size_t)d->arg;
        if(j > n) { env_plan_mismatch = 1; j = n; }
        size_t off = 0;
        while(off < j) {
            ssize_t w = __real_write(fd, (const char *)buf + off, j - off);
            if(w <= 0) break;
            off += w;
        }
        VF_EXIT(77);
    }
    size_t req = n;
    char dv = 0;
    if(d && d->kind == DEV_SHORT) {
        if((size_t)d->arg < n) { n = d->arg; dv = 'S'; }
        else env_plan_mismatch = 1;
    }
    ssize_t r = __real_write(fd, buf, n);
    tr(k, 'w', role_of(fd), req, r, r < 0 ? errno : 0, dv);
    return r;
}

static off_t do_lseek(int fd, off_t o, int w) {
    int k;
    if(!point(fd, &k)) return __real_lseek64(fd, o, w);
    const deviation *d = dev_for(k);
    if(d && d->kind == DEV_FAIL) {
        tr(k, 's', role_of(fd), o, -1, (int)d->arg, 'F');
        errno = (int)d->arg;
        return -1;
    }
    if(d) env_plan_mismatch = 1;
    off_t r = __real_lseek64(fd, o, w);
    tr(k, 's', role_of(fd), o, r, r < 0 ? errno : 0, 0);
    return r;
}
off_t __wrap_lseek(int fd, off_t o, int w) { return do_lseek(fd, o, w); }
off_t __wrap_lseek64(int fd, off_t o, int w) { return do_lseek(fd, o, w); }

static int do_ftruncate(int fd, off_t l) {
    int k;
    if(!point(fd, &k)) return __real_ftruncate64(fd, l);
    const deviation *d = dev_for(k);
    if(d && d->kind == DEV_FAIL) {
        tr(k, 't', role_of(fd), l, -1, (int)d->arg, 'F');
        errno = (int)d->arg;
        return -1;
    }
    if(d && d->kind == DEV_KILL) VF_EXIT(77);
    if(d) env_plan_mismatch = 1;
    int r = __real_ftruncate64(fd, l);
    tr(k, 't', role_of(fd), l, r, r < 0 ? errno : 0, 0);
    return r;
}
int __wrap_ftruncate(int fd, off_t l) { return do_ftruncate(fd, l); }
int __wrap_ftruncate64(int fd, off_t l) { return do_ftruncate(fd, l); }

int env_bad_closes = 0;   /* close() calls of the code under test on a descriptor that is not open: it no longer owns that number */
int __wrap_close(int fd) {
    if(sched_active) sched_point();
    if(env_on && role_of(fd)) tr(-1, 'c', role_of(fd), fd, 0, 0, 0);
    if(fd >= 0 && fd < MAXFD) __atomic_store_n(&roles[fd], 0, __ATOMIC_RELAXED);
    int r = __real_close(fd);
    if(r < 0 && errno == EBADF) __atomic_fetch_add(&env_bad_closes, 1, __ATOMIC_RELAXED);
    return r;
}

static int do_mkstemp(char *tmpl) {
    if(sched_active) sched_point();
    if(env_on) {
        int k = ncalls++;
        const deviation *d = dev_for(k);
        if(d && d->kind == DEV_FAIL) {
            tr(k, 'm', ROLE_TEMP, 0, -1, (int)d->arg, 'F');
            errno = (int)d->arg;
            return -1;
        }
        if(d) env_plan_mismatch = 1;
        int fd = __real_mkstemp64(tmpl);
        tr(k, 'm', ROLE_TEMP, 0, fd, fd < 0 ? errno : 0, 0);
        if(fd >= 0) env_role(fd, ROLE_TEMP);
        return fd;
    }
    return __real_mkstemp64(tmpl);
}
int __wrap_mkstemp(char *t) { return do_mkstemp(t); }
int __wrap_mkstemp64(char *t) { return do_mkstemp(t); }

int __wrap_unlink(const char *p) {
    if(sched_active) sched_point();
    return __real_unlink(p);
}

static int do_open(const char *path, int flags, mode_t mode) {
    if(sched_active) sched_point();
    int fd = __real_open64(path, flags, mode);
    if(fd >= 0 && env_on)
        for(int i = 0; i < npath_roles; i++)
            if(strcmp(path_roles[i].path, path) == 0) env_role(fd, path_roles[i].role);
    return fd;
}
int __wrap_open(const char *path, int flags, ...) {
    va_list ap;
    va_start(ap, flags);
    mode_t m = (flags & (O_CREAT | O_TMPFILE)) ? va_arg(ap, mode_t) : 0;
    va_end(ap);
    return do_open(path, flags, m);
}
int __wrap_open64(const char *path, int flags, ...) {
    va_list ap;
    va_start(ap, flags);
    mode_t m = (flags & (O_CREAT | O_TMPFILE)) ? va_arg(ap, mode_t) : 0;
    va_end(ap);
    return do_open(path, flags, m);
}
