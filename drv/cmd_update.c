/* update: the documented delta-update procedure against the reference range server (C04, C11, C12)
 *
 * job lines:
 *   a <blob|->   b <blob>          state: old file (or none) and new file
 *   case init=<blob|-> limit=<n> style=<0|1> piece=<n> [abort=<body bytes of the first chunk response after which the connection drops>] plan=<k:F:errno|k:S:count|k:K:bytes,...> trace=<0|1>
 * the target starts with the bytes of init; a plan that contains a kill makes the scenario run in a child of its own
 * which dies at that point - the target is then reported as the kill left it.
 * output: U <idx> status= scan= copy= end= missing= failed= atscan= body= reqs=<h|c>:<ranges>;... killed=<0|1> mismatch=<plan mismatch>
 *                 calls=<choice points seen> tfile=<blob> [trace=...]
 */
#include "drv.h"
#include "scen.h"
#include <sys/wait.h>
#include <sys/mman.h>

typedef struct { blob *a, *b; blob init; int limit, style, piece, trace; deviation plan[8]; int nplan; long abort_at; } ucase;
typedef struct { ucase *cases; int n; } uctx;

int parse_plan(const char *s, deviation *d, int max) {
    int n = 0;
    if(!s || !strcmp(s, "-")) return 0;
    while(*s && n < max) {
        char *e;
        d[n].k = (int)strtol(s, &e, 10);
        if(*e != ':') die("bad plan");
        char kind = e[1];
        d[n].kind = kind == 'F' ? DEV_FAIL : kind == 'S' ? DEV_SHORT : kind == 'K' ? DEV_KILL : 0;
        if(!d[n].kind || e[2] != ':') die("bad plan kind");
        d[n].arg = strtol(e + 3, &e, 10);
        n++;
        s = *e == ',' ? e + 1 : e;
    }
    return n;
}

static void run_one(int idx, FILE *out, void *vctx) {
    uctx *c = vctx;
    ucase *k = &c->cases[idx];
    int tfd = tmp_file_with("ut", k->init.p, k->init.n);
    upd_cfg cfg = {k->a, k->b, k->limit, k->style, k->piece, k->abort_at};
    bool kill = false;
    for(int i = 0; i < k->nplan; i++) if(k->plan[i].kind == DEV_KILL) kill = true;
    upd_res *res = mmap(NULL, sizeof *res, PROT_READ | PROT_WRITE, MAP_SHARED | MAP_ANONYMOUS, -1, 0);
    if(res == MAP_FAILED) die("mmap");
    int killed = 0, mismatch = 0, calls = 0;
    if(kill) {
        fflush(NULL);
        pid_t pid = fork();
        if(pid < 0) die("fork");
        if(pid == 0) {
            die_with_parent();
            env_reset();
            env_role(tfd, ROLE_TARGET);
            env_set_plan(k->plan, k->nplan);
            env_enable(true);
            update_run(&cfg, tfd, res);
            env_enable(false);
            VF_EXIT(env_plan_mismatch ? 78 : 0);
        }
        int st = 0;
        while(waitpid(pid, &st, 0) < 0 && errno == EINTR) {}
        if(WIFEXITED(st) && WEXITSTATUS(st) == 77) killed = 1;
        else if(WIFEXITED(st) && WEXITSTATUS(st) == 78) mismatch = 1;
        else if(!(WIFEXITED(st) && WEXITSTATUS(st) == 0)) {
            /* crash of the code under test inside the grandchild: make it this case's crash */
            if(WIFSIGNALED(st)) raise(WTERMSIG(st));
            _exit(WIFEXITED(st) ? WEXITSTATUS(st) : 98);
        }
    } else {
        env_reset();
        env_role(tfd, ROLE_TARGET);
        env_set_plan(k->plan, k->nplan);
        env_enable(true);
        update_run(&cfg, tfd, res);
        env_enable(false);
        mismatch = env_plan_mismatch;
        calls = env_calls();
    }
    fprintf(out, "U %d", idx);
    if(killed) fprintf(out, " status=-1 killed=1");
    else { upd_res_print(res, out); fprintf(out, " killed=0"); }
    fprintf(out, " mismatch=%d calls=%d", mismatch, calls);
    blob t = fd_contents(tfd);
    put_blob(out, "tfile", t.p, t.n);
    blob_free(&t);
    if(k->trace && !kill) env_print_trace(out);
    fputc('\n', out);
    munmap(res, sizeof *res);
    real_close(tfd);
}

int cmd_update(FILE *job, FILE *out) {
    uctx c = {0};
    int cap = 0;
    blob *a = NULL, *b = NULL;
    char *line;
    int chunk = 32;
    while((line = read_line(job))) {
        int n;
        char **t = split_ws(line, &n);
        if(n == 0) { free(t); free(line); continue; }
        if(!strcmp(t[0], "a")) { if(!strcmp(t[1], "-")) a = NULL; else { a = malloc(sizeof *a); *a = blob_arg(t[1]); } }
        else if(!strcmp(t[0], "b")) { b = malloc(sizeof *b); *b = blob_arg(t[1]); }
        else if(!strcmp(t[0], "chunk")) chunk = atoi(t[1]);
        else if(!strcmp(t[0], "case")) {
            if(!b) die("update: case before b");
            if(c.n >= cap) { cap = cap ? cap * 2 : 1024; c.cases = realloc(c.cases, cap * sizeof *c.cases); }
            ucase k;
            memset(&k, 0, sizeof k);
            k.a = a; k.b = b;
            k.init = blob_arg(kv(t, n, "init", "-"));
            k.limit = (int)kvi(t, n, "limit", -1);
            k.style = (int)kvi(t, n, "style", 0);
            k.piece = (int)kvi(t, n, "piece", 0);
            k.trace = (int)kvi(t, n, "trace", 0);
            k.abort_at = kvi(t, n, "abort", -1);
            k.nplan = parse_plan(kv(t, n, "plan", "-"), k.plan, 8);
            c.cases[c.n++] = k;
        } else die("update: bad line %s", t[0]);
        free(t);
        free(line);
    }
    run_opts o = {.chunk = chunk, .timeout_ms = 10000, .confirm_hang = true};
    run_cases(c.n, run_one, &c, o, out);
    return 0;
}
