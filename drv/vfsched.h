#ifndef VFSCHED_H
#define VFSCHED_H
#define SCHED_MAXT 4
#define SCHED_MAXPOINTS 4096
typedef void (*sched_body)(void *);
typedef struct {
    int npoints;
    unsigned char nenabled[SCHED_MAXPOINTS], cur_enabled[SCHED_MAXPOINTS], choice[SCHED_MAXPOINTS], who[SCHED_MAXPOINTS];
} sched_trace;
int sched_run(int n, sched_body *b, void **a, const unsigned char *prefix, int nprefix, sched_trace *tr);
#endif
