/* scan: validity-scan histories on on-disk states of a target (C09)
 *
 * job lines:
 *   sched <s>                read schedule of the final read (one cyclic comma list)
 *   disk <blob>              state line: the target's bytes (header of B followed by a body in some state)
 *   hist <ops>               one case on the current disk.  ops: comma list over
 *                              V zck_validate_checksums   D zck_validate_data_checksum   F zck_find_valid_chunks
 *                              X zck_reset_failed_chunks   M zck_missing_chunks / zck_failed_chunks (counts only)
 *                              G<limit> zck_get_missing_range + zck_get_range_char, released again
 *                              Q zck_find_matching_chunks(peer, this)  C<i> zck_get_chunk_data(chunk i)  S<i> ..comp_data(chunk i)
 *   recover <0|1>            final read clears the error after every failed read and reads on
 *                              r<k> one zck_read of k bytes; what it returns is put in front of the final read's content
 *   peer <blob>              state: an intact file used as the source of Q
 *                            all on ONE context; afterwards the context is read to the end and closed ("-" = no scan)
 * output per case:
 *   S <idx> open=<0|1> steps=<op>:<ret>:<flags>;...  same=<0|1> pos=<fd offset after scans - data offset>
 *           reads=.. last=.. rclose=.. content=<blob> ...
 */
#include "drv.h"

typedef struct { blob *disk; char *ops; } scase;
typedef struct { scase *cases; int n; int *sched; int nsched; blob peer; } sctx;

static void run_one(int idx, FILE *out, void *vctx) {
    sctx *c = vctx;
    scase *k = &c->cases[idx];
    int fd = tmp_file_with("scan", k->disk->p, k->disk->n);
    zckCtx *zck = zck_create();
    if(!zck) die("zck_create");
    int op = zck_init_read(zck, fd);
    fprintf(out, "S %d open=%d steps=", idx, op);
    if(!op) {
        fprintf(out, "-\n");
        zck_free(&zck);
        real_close(fd);
        return;
    }
    /* everything the getters report right after the open, to be compared with what they report at the end (C13) */
    char *m0 = NULL; size_t m0n = 0;
    { FILE *mf = open_memstream(&m0, &m0n); dump_meta(zck, mf, "M"); fclose(mf); }
    int ns = 0;
    int pfd = -1;
    blob pre = blob_new(4096);
    size_t npre = 0;
    zckCtx *peer = NULL;
    char *ops = strdup(k->ops), *save = NULL;
    for(char *o = strtok_r(ops, ",", &save); o; o = strtok_r(NULL, ",", &save)) {
        long r;
        switch(o[0]) {
        case 'V': r = zck_validate_checksums(zck); break;
        case 'D': r = zck_validate_data_checksum(zck); break;
        case 'F': r = zck_find_valid_chunks(zck); break;
        case 'X': zck_reset_failed_chunks(zck); r = 0; break;
        case 'r': {
            char tmp[256];
            int k = atoi(o + 1);
            if(k < 1 || k > (int)sizeof tmp) die("scan: bad read size");
            r = zck_read(zck, tmp, k);
            if(r > 0 && npre + r <= pre.n) { memcpy(pre.p + npre, tmp, r); npre += r; }
            break;
        }
        case 'M': r = zck_missing_chunks(zck) * 1000 + zck_failed_chunks(zck); break;
        case 'Q':
            if(!peer) {
                if(!c->peer.n) die("scan: Q without peer");
                pfd = tmp_file_with("scp", c->peer.p, c->peer.n);
                peer = zck_create();
                if(!zck_init_read(peer, pfd)) die("scan: peer does not open");
            }
            r = zck_find_matching_chunks(peer, zck);
            break;
        case 'C': case 'S': {
            zckChunk *ch = zck_get_chunk(zck, atoi(o + 1));
            char tmp[4096];
            r = !ch ? -9 : o[0] == 'C' ? zck_get_chunk_data(ch, tmp, sizeof tmp) : zck_get_chunk_comp_data(ch, tmp, sizeof tmp);
            break;
        }
        case 'G': {     /* a missing-range request (limit follows the letter), rendered and released */
            zckRange *rg = zck_get_missing_range(zck, atoi(o + 1));
            r = rg ? zck_get_range_count(rg) : -9;
            if(rg) { char *rs = zck_get_range_char(zck, rg); free(rs); zck_range_free(&rg); }
            break;
        }
        case '-': continue;
        default: die("scan: bad op %s", o);
        }
        fprintf(out, "%s%c:%ld:", ns++ ? ";" : "", o[0], r);
        int any = 0;
        for(zckChunk *ch = zck_get_first_chunk(zck); ch; ch = zck_get_next_chunk(ch)) {
            int v = zck_get_chunk_valid(ch);
            fputc(v == 1 ? '+' : v == 0 ? '0' : v == -1 ? '!' : '?', out);
            any = 1;
        }
        if(!any) fputc('-', out);
    }
    if(!ns) fputc('-', out);
    free(ops);
    off_t pos = real_lseek(fd, 0, SEEK_CUR);
    fprintf(out, " pos=%lld", (long long)pos - (long long)zck_get_header_length(zck));
    read_res r = lib_read_ctx(zck, c->sched, c->nsched, k->disk->n * 4 + 65536, false);
    {
        char *m1 = NULL; size_t m1n = 0;
        bool usable = zck_clear_error(zck);      /* a context left in a fatal error state refuses every call: nothing to compare */
        FILE *mf = open_memstream(&m1, &m1n); dump_meta(zck, mf, "M"); fclose(mf);
        /* the per-chunk validity column (last field of every chunk item) legitimately changes: drop it on both sides */
        for(int side = 0; side < 2; side++) {
            char *m = side ? m1 : m0;
            char *cp = m ? strstr(m, " chunks=") : NULL;
            if(!cp) continue;
            char *w = cp + 8, *q = cp + 8;
            while(*q && *q != ' ') {
                char *e = q;
                while(*e && *e != ',' && *e != ' ') e++;
                char *lc = e;
                while(lc > q && *lc != ':') lc--;
                if(lc > q) { memmove(w, q, lc - q); w += lc - q; } else { memmove(w, q, e - q); w += e - q; }
                if(*e == ',') { *w++ = ','; e++; }
                q = e;
            }
            memmove(w, q, strlen(q) + 1);
        }
        fprintf(out, " metasame=%d", !usable ? -1 : (m0 && m1 && strcmp(m0, m1) == 0));
        free(m1);
    }
    free(m0);
    if(npre) {
        /* bytes handed out by partial reads during the history come first */
        unsigned char *all = malloc(npre + r.content.n + 1);
        memcpy(all, pre.p, npre);
        memcpy(all + npre, r.content.p, r.content.n);
        free(r.content.p);
        r.content.p = all;
        r.content.n += npre;
    }
    blob_free(&pre);
    zck_free(&zck);
    if(peer) { zck_free(&peer); real_close(pfd); }
    blob after = fd_contents(fd);
    fprintf(out, " same=%d", after.n == k->disk->n && (after.n == 0 || memcmp(after.p, k->disk->p, after.n) == 0));
    read_res_print(&r, out, false);
    fputc('\n', out);
    read_res_free(&r);
    blob_free(&after);
    real_close(fd);
}

int cmd_scan(FILE *job, FILE *out) {
    sctx c = {0};
    int cap = 0;
    blob *disk = NULL;
    char *line;
    static int dflt[] = {32768};
    c.sched = dflt;
    c.nsched = 1;
    while((line = read_line(job))) {
        int n;
        char **t = split_ws(line, &n);
        if(n == 0) { free(t); free(line); continue; }
        if(!strcmp(t[0], "sched")) c.sched = parse_int_list(t[1], &c.nsched);
        else if(!strcmp(t[0], "peer")) c.peer = blob_arg(t[1]);
        else if(!strcmp(t[0], "recover")) g_read_recover = atoi(t[1]);
        else if(!strcmp(t[0], "disk")) { disk = malloc(sizeof *disk); *disk = blob_arg(t[1]); }
        else if(!strcmp(t[0], "hist")) {
            if(!disk) die("scan: hist before disk");
            if(c.n >= cap) { cap = cap ? cap * 2 : 1024; c.cases = realloc(c.cases, cap * sizeof *c.cases); }
            c.cases[c.n].disk = disk;
            c.cases[c.n].ops = strdup(n > 1 ? t[1] : "-");
            c.n++;
        } else die("scan: bad line %s", t[0]);
        free(t);
        free(line);
    }
    run_opts o = {.chunk = 64, .timeout_ms = 10000, .confirm_hang = true};
    run_cases(c.n, run_one, &c, o, out);
    return 0;
}
