/* ranges: missing-range computation for a marking of the target's chunks (C10)
 *
 * job lines:
 *   file <blob>                   state: the complete new file B
 *   case mark=<+|0|! per chunk> limit=<n> [noscan=1] [feed=0] [fsrc=<blob>]
 *        pmark=<+|0 per chunk>: the context first sees the target in marking pmark (scan, reset, one missing-range request
 *        whose result is dropped), then the file is rewritten to marking mark, scanned and reset again - the judged
 *        request is the second one on the same context
 *        detached=1: the context is opened from B's detached header (identifier ZHR1, header followed by the dictionary's stored
 *        bytes where marked '+'); the scan then concerns the dictionary only and every other chunk stays missing
 *        '!' = failed: after scan and reset, zck_copy_chunks from the source fsrc (written by the reference writer: it
 *        lists exactly the '!' chunks with their digests and sizes, but holds other bytes), which leaves them failed
 * flow per case (public API only): the target gets B's header and exactly the chunks marked '+' (zeros elsewhere);
 * zck_init_read, zck_find_valid_chunks, zck_reset_failed_chunks (skipped with noscan=1, where everything is missing),
 * flags read back, zck_get_missing_range(limit), zck_get_range_count, zck_get_range_char.  With feed=1 the payload of
 * exactly the rendered ranges (taken from B) is given to zck_write_chunk_cb in one piece - the range index is thereby
 * observed behaviourally - and flags and target bytes are reported again.
 * output: G <idx> open= scan= flags= count= str=<hex> [fed=<ret of cb>/<len> flags2= tsame=<target == B on every '+' of flags2, header and bytes elsewhere unchanged>]
 */
#include "drv.h"

typedef struct { blob *file; char *mark; int limit, noscan, feed; blob fsrc; char *pmark; int detached; } gcase;
typedef struct { gcase *cases; int n; } gctx;

static void run_one(int idx, FILE *out, void *vctx) {
    gctx *c = vctx;
    gcase *k = &c->cases[idx];
    /* parse B with the library itself only to learn extents for building the target; the oracle recomputes them */
    int bfd = tmp_file_with("rb", k->file->p, k->file->n);
    zckCtx *b = zck_create();
    if(!zck_init_read(b, bfd)) die("ranges: B does not open: %s", zck_get_error(b));
    size_t hl = zck_get_header_length(b);
    blob tgt = blob_new(k->file->n);
    memcpy(tgt.p, k->file->p, hl);
    int nch = 0;
    for(zckChunk *ch = zck_get_first_chunk(b); ch; ch = zck_get_next_chunk(ch), nch++) {
        if(k->mark[nch] == 0) die("ranges: mark too short");
        if(k->mark[nch] == '+')
            memcpy(tgt.p + zck_get_chunk_start(ch), k->file->p + zck_get_chunk_start(ch), zck_get_chunk_comp_size(ch));
    }
    blob pre = {0};
    if(k->pmark) {
        pre = blob_new(k->file->n);
        memcpy(pre.p, k->file->p, hl);
        int i = 0;
        for(zckChunk *ch = zck_get_first_chunk(b); ch; ch = zck_get_next_chunk(ch), i++)
            if(k->pmark[i] == '+')
                memcpy(pre.p + zck_get_chunk_start(ch), k->file->p + zck_get_chunk_start(ch), zck_get_chunk_comp_size(ch));
    }
    if(k->detached) {
        /* header under the other identifier + the dictionary's stored bytes */
        zckChunk *d0 = zck_get_first_chunk(b);
        size_t dn = hl + (d0 ? (size_t)zck_get_chunk_comp_size(d0) : 0);
        memcpy(tgt.p, "\0ZHR1", 5);
        tgt.n = dn;
    }
    zck_free(&b);
    real_close(bfd);
    int fd = tmp_file_with("rt", k->pmark ? pre.p : tgt.p, tgt.n);
    zckCtx *zck = zck_create();
    int op = zck_init_read(zck, fd);
    fprintf(out, "G %d open=%d", idx, op);
    if(!op) { fputc('\n', out); return; }
    int scan = 9;
    if(k->pmark) {
        zck_find_valid_chunks(zck);
        zck_reset_failed_chunks(zck);
        zckRange *r0 = zck_get_missing_range(zck, k->limit);
        if(r0) { char *s0 = zck_get_range_char(zck, r0); free(s0); zck_range_free(&r0); }
        if(pwrite(fd, tgt.p, tgt.n, 0) != (ssize_t)tgt.n) die("ranges: rewrite");
        blob_free(&pre);
    }
    if(!k->noscan) {
        scan = zck_find_valid_chunks(zck);
        zck_reset_failed_chunks(zck);
    }
    fprintf(out, " scan=%d", scan);
    zckCtx *fs = NULL;
    int fsfd = -1;
    if(k->fsrc.n) {
        fsfd = tmp_file_with("rf", k->fsrc.p, k->fsrc.n);
        fs = zck_create();
        if(!zck_init_read(fs, fsfd)) die("ranges: fsrc does not open: %s", zck_get_error(fs));
        fprintf(out, " fcopy=%d", (int)zck_copy_chunks(fs, zck));
    }
    dump_flags(zck, out, "flags");
    zckRange *range = zck_get_missing_range(zck, k->limit);
    if(!range) { fprintf(out, " range=NULL\n"); zck_free(&zck); return; }
    fprintf(out, " count=%d", zck_get_range_count(range));
    fflush(out);
    char *s = zck_get_range_char(zck, range);
    fprintf(out, " str=");
    if(!s) fputs("NULL", out); else put_hex(out, s, strlen(s));
    if(k->feed && s && *s) {
        /* the server's answer to exactly this request, as one plain body */
        blob pay = blob_new(k->file->n);
        size_t pn = 0;
        bool okp = true;
        for(char *p = s; *p && okp;) {
            char *e;
            unsigned long long a = strtoull(p, &e, 10);
            if(e == p || *e != '-') { okp = false; break; }
            p = e + 1;
            unsigned long long z = strtoull(p, &e, 10);
            if(e == p) { okp = false; break; }
            p = e;
            if(*p == ',') p++;
            if(a > z || z >= k->file->n) { okp = false; break; }
            if(pn + (z - a + 1) > pay.n) { okp = false; break; }
            memcpy(pay.p + pn, k->file->p + a, z - a + 1);
            pn += z - a + 1;
        }
        if(okp) {
            zckDL *dl = zck_dl_init(zck);
            zck_dl_set_range(dl, range);
            size_t r = zck_write_chunk_cb(pay.p, 1, pn, dl);
            fprintf(out, " fed=%zu/%zu", r, pn);
            dump_flags(zck, out, "flags2");
            blob after = fd_contents(fd);
            /* every byte either as in the initial target or (inside chunks now valid) as in B */
            int good = after.n == tgt.n;
            if(good) {
                int i = 0;
                blob exp = blob_dup(tgt.p, tgt.n);
                for(zckChunk *ch = zck_get_first_chunk(zck); ch; ch = zck_get_next_chunk(ch), i++)
                    if(zck_get_chunk_valid(ch) == 1)
                        memcpy(exp.p + zck_get_chunk_start(ch), k->file->p + zck_get_chunk_start(ch), zck_get_chunk_comp_size(ch));
                good = memcmp(exp.p, after.p, after.n) == 0;
                blob_free(&exp);
            }
            fprintf(out, " tsame=%d", good);
            blob_free(&after);
            zck_dl_free(&dl);
        } else fprintf(out, " fed=unparsable");
        blob_free(&pay);
    }
    fputc('\n', out);
    free(s);
    zck_range_free(&range);
    zck_free(&zck);
    if(fs) { zck_free(&fs); real_close(fsfd); }
    real_close(fd);
    blob_free(&tgt);
}

int cmd_ranges(FILE *job, FILE *out) {
    gctx c = {0};
    int cap = 0;
    blob *file = NULL;
    char *line;
    int chunk = 64;
    while((line = read_line(job))) {
        int n;
        char **t = split_ws(line, &n);
        if(n == 0) { free(t); free(line); continue; }
        if(!strcmp(t[0], "file")) { file = malloc(sizeof *file); *file = blob_arg(t[1]); }
        else if(!strcmp(t[0], "chunk")) chunk = atoi(t[1]);
        else if(!strcmp(t[0], "case")) {
            if(!file) die("ranges: case before file");
            if(c.n >= cap) { cap = cap ? cap * 2 : 1024; c.cases = realloc(c.cases, cap * sizeof *c.cases); }
            gcase k = {file, strdup(kv(t, n, "mark", "")), (int)kvi(t, n, "limit", -1), (int)kvi(t, n, "noscan", 0), (int)kvi(t, n, "feed", 1), blob_arg(kv(t, n, "fsrc", "-")), kv(t, n, "pmark", NULL) ? strdup(kv(t, n, "pmark", "")) : NULL, (int)kvi(t, n, "detached", 0)};
            c.cases[c.n++] = k;
        } else die("ranges: bad line %s", t[0]);
        free(t);
        free(line);
    }
    run_opts o = {.chunk = chunk, .timeout_ms = 20000, .confirm_hang = true};
    run_cases(c.n, run_one, &c, o, out);
    return 0;
}
