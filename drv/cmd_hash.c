/* hash: digests through the library's hash wrapper (internal seam of C18)
 *
 * job lines:
 *   msg type=<0..3> family=<z|f|c|p> seed=<n> lo=<len lo> hi=<len hi> pairs=<len,len,...>
 *        one case: for every length in [lo,hi]: one-shot digest, every split into two updates, and for lengths in
 *        `pairs` every split into three updates; prints
 *          H <idx> len=<n> d=<hex> splits=<n> bad=<n>
 *   big type=<t> family=c len=<n> piece=<n>      one long message in piece-sized updates
 * content families: z zeros, f 0xff, c counter (i mod 251), p xorshift PRNG(seed)
 */
#include "drv.h"
#include "zck_private.h"

typedef struct { char kind; int type, lo, hi, seed; char family; int pairs[32]; int npairs; size_t len, piece; } hcase;
typedef struct { hcase *cases; int n; } hctx;

static void fill(unsigned char *p, size_t n, char fam, int seed) {
    uint64_t x = 0x9E3779B97F4A7C15ULL ^ (uint64_t)seed * 0x100000001B3ULL;
    for(size_t i = 0; i < n; i++) {
        switch(fam) {
        case 'z': p[i] = 0; break;
        case 'f': p[i] = 0xff; break;
        case 'c': p[i] = i % 251; break;
        default:
            x ^= x << 13; x ^= x >> 7; x ^= x << 17;
            p[i] = x >> 32;
        }
    }
}

static int digest_parts(zckCtx *zck, int type, const unsigned char *p, const size_t *cuts, int ncuts, size_t n,
                        unsigned char *out, int *dsize) {
    zckHashType ht;
    zckHash h = {0};
    if(!hash_setup(zck, &ht, type)) return 0;
    if(!hash_init(zck, &h, &ht)) return 0;
    size_t prev = 0;
    for(int i = 0; i <= ncuts; i++) {
        size_t end = i < ncuts ? cuts[i] : n;
        if(end > prev) {
            if(!hash_update(zck, &h, (const char *)p + prev, end - prev)) return 0;
        } else {
            if(!hash_update(zck, &h, NULL, 0)) return 0; /* documented no-op */
        }
        prev = end;
    }
    char *d = hash_finalize(zck, &h);
    if(!d) return 0;
    memcpy(out, d, ht.digest_size);
    *dsize = ht.digest_size;
    free(d);
    return 1;
}

static void run_one(int idx, FILE *out, void *vctx) {
    hctx *c = vctx;
    hcase *k = &c->cases[idx];
    zckCtx *zck = zck_create();
    if(k->kind == 'm') {
        unsigned char *buf = malloc(k->hi + 1);
        fill(buf, k->hi, k->family, k->seed);
        for(int n = k->lo; n <= k->hi; n++) {
            unsigned char d0[64], d1[64];
            int ds = 0, ds1 = 0;
            if(!digest_parts(zck, k->type, buf, NULL, 0, n, d0, &ds)) {
                fprintf(out, "H %d len=%d error=1 msg=%s\n", idx, n, zck_get_error(zck));
                continue;
            }
            long splits = 0, bad = 0;
            for(size_t a = 0; a <= (size_t)n; a++) {
                size_t cuts[1] = {a};
                splits++;
                if(!digest_parts(zck, k->type, buf, cuts, 1, n, d1, &ds1) || ds1 != ds || memcmp(d0, d1, ds)) {
                    if(bad < 5) fprintf(out, "B %d len=%d cut=%zu\n", idx, n, a);
                    bad++;
                }
            }
            for(int q = 0; q < k->npairs; q++)
                if(k->pairs[q] == n)
                    for(size_t a = 0; a <= (size_t)n; a++)
                        for(size_t b = a; b <= (size_t)n; b++) {
                            size_t cuts[2] = {a, b};
                            splits++;
                            if(!digest_parts(zck, k->type, buf, cuts, 2, n, d1, &ds1) || ds1 != ds || memcmp(d0, d1, ds)) {
                                if(bad < 5) fprintf(out, "B %d len=%d cut=%zu,%zu\n", idx, n, a, b);
                                bad++;
                            }
                        }
            fprintf(out, "H %d len=%d d=", idx, n);
            put_hex(out, d0, ds);
            fprintf(out, " splits=%ld bad=%ld\n", splits, bad);
        }
        free(buf);
    } else {
        zckHashType ht;
        zckHash h = {0};
        unsigned char *piece = malloc(k->piece);
        fill(piece, k->piece, 'c', 0);
        int ok = hash_setup(zck, &ht, k->type) && hash_init(zck, &h, &ht);
        size_t done = 0;
        while(ok && done < k->len) {
            size_t m = k->len - done < k->piece ? k->len - done : k->piece;
            ok = hash_update(zck, &h, (char *)piece, m);
            done += m;
        }
        char *d = ok ? hash_finalize(zck, &h) : NULL;
        fprintf(out, "G %d len=%zu d=", idx, k->len);
        if(d) put_hex(out, d, ht.digest_size); else fputs("ERR", out);
        fputc('\n', out);
        free(d);
        free(piece);
    }
    zck_free(&zck);
}

int cmd_hash(FILE *job, FILE *out) {
    hctx c = {0};
    int cap = 0;
    char *line;
    while((line = read_line(job))) {
        int n;
        char **t = split_ws(line, &n);
        if(n == 0) { free(t); free(line); continue; }
        hcase k;
        memset(&k, 0, sizeof k);
        k.kind = !strcmp(t[0], "msg") ? 'm' : 'b';
        k.type = (int)kvi(t, n, "type", 1);
        k.family = kv(t, n, "family", "c")[0];
        k.seed = (int)kvi(t, n, "seed", 0);
        k.lo = (int)kvi(t, n, "lo", 0);
        k.hi = (int)kvi(t, n, "hi", 0);
        k.len = (size_t)kvi(t, n, "len", 0);
        k.piece = (size_t)kvi(t, n, "piece", 1 << 20);
        int np;
        int *pl = parse_int_list(kv(t, n, "pairs", ""), &np);
        k.npairs = np > 32 ? 32 : np;
        for(int i = 0; i < k.npairs; i++) k.pairs[i] = pl[i];
        if(c.n >= cap) { cap = cap ? cap * 2 : 64; c.cases = realloc(c.cases, cap * sizeof *c.cases); }
        c.cases[c.n++] = k;
        free(t);
        free(line);
    }
    run_opts o = {.chunk = 1, .timeout_ms = 600000};
    run_cases(c.n, run_one, &c, o, out);
    return 0;
}
