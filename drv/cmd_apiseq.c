/* apiseq: public call sequences on an arbitrary byte string offered as a zchunk file (C03)
 *
 * job lines:
 *   peer <blob>                a valid file used as the other side of copy / matching operations
 *   case file=<blob> seqs=<op,op;op;...>        every sequence runs on a fresh context over the same file
 * ops: R1 R7 RB  read to the end with buffer 1 / 7 / 32768, then close      V validate-checksums   D validate-data
 *      F find-valid    G every getter + chunk iteration     C0 CL  zck_get_chunk_data of the first / last chunk
 *      S0 SL zck_get_chunk_comp_data first / last     M zck_get_missing_range(-1 and 1) + zck_get_range_char
 *      Ps copy-chunks with this file as source into the peer    Pt copy-chunks from the peer into this file
 *      Q  zck_find_matching_chunks both ways    X zck_close    A advanced open: zck_init_adv_read + lead + header
 *      E  zck_clear_error    Re read to the end with buffer 7, clearing the error after every failed read (no close)
 *      r  one zck_read of 5 bytes (leaves decoded bytes unread)
 * output: A <idx> seq=<i>   before every sequence (so that a crash is attributable)
 *         Z <idx> opened=<0|1> nseq=<n>
 * the verdict of the case is the status line of the runner (sanitizer report, signal, timeout).
 */
#include "drv.h"
#include <sys/resource.h>
#include <signal.h>

typedef struct { blob file; char *seqs; } acase;
typedef struct { acase *cases; int n; blob peer; } actx;

static void dump_all(zckCtx *zck) {
    FILE *nul = fopen("/dev/null", "w");
    if(!nul) return;
    dump_meta(zck, nul, "G");
    for(zckChunk *c = zck_get_first_chunk(zck); c; c = zck_get_next_chunk(c)) {
        zck_get_chunk_number(c);
        zck_get_src_chunk(c);
        zck_compare_chunk_digest(c, zck_get_first_chunk(zck));
    }
    zck_get_chunk(zck, 0);
    zck_get_chunk(zck, 1);
    zck_get_chunk(zck, 1000000);
    zck_missing_chunks(zck);
    zck_failed_chunks(zck);
    zck_is_error(zck);
    zck_get_error(zck);
    fclose(nul);
}

static zckChunk *last_chunk(zckCtx *zck) {
    zckChunk *l = NULL;
    int n = 0;
    for(zckChunk *c = zck_get_first_chunk(zck); c && n < 1000000; c = zck_get_next_chunk(c), n++) l = c;
    return l;
}

static void chunk_data(zckChunk *c, bool comp) {
    if(!c) return;
    ssize_t sz = comp ? zck_get_chunk_comp_size(c) : zck_get_chunk_size(c);
    if(sz < 0) return;
    if(sz > (1 << 20)) sz = 1 << 20;          /* the API takes the caller's buffer size */
    char *buf = malloc(sz ? sz : 1);
    if(!buf) return;
    if(comp) zck_get_chunk_comp_data(c, buf, sz); else zck_get_chunk_data(c, buf, sz);
    free(buf);
}

static void read_all(zckCtx *zck, int bs) {
    char *buf = malloc(bs);
    size_t total = 0;
    int errs = 0;
    for(long i = 0; i < 4000000; i++) {
        ssize_t r = zck_read(zck, buf, bs);
        if(r == 0) break;
        if(r < 0) { if(++errs > 2) break; continue; }
        total += r;
        if(total > (64u << 20)) break;
    }
    free(buf);
    zck_close(zck);
}

static void read_recover(zckCtx *zck) {
    char buf[7];
    size_t total = 0;
    int errs = 0;
    for(long i = 0; i < 4000000; i++) {
        ssize_t r = zck_read(zck, buf, sizeof buf);
        if(r == 0) break;
        if(r < 0) { if(++errs > 6 || !zck_clear_error(zck)) break; continue; }
        total += r;
        if(total > (64u << 20)) break;
    }
}

static void run_seq(actx *c, acase *k, char *seq, int *opened) {
    int fd = tmp_file_with("as", k->file.p, k->file.n);
    zckCtx *zck = zck_create();
    if(!zck) die("zck_create");
    bool adv = strstr(seq, "A") == seq;
    int ok;
    if(adv) {
        ok = zck_init_adv_read(zck, fd) && zck_read_lead(zck);
        if(ok) { zck_validate_lead(zck); ok = zck_read_header(zck); }
    } else ok = zck_init_read(zck, fd);
    if(ok) *opened = 1;
    int pfd = -1;
    zckCtx *peer = NULL;
    char *ops = strdup(seq), *save = NULL;
    for(char *o = strtok_r(ops, ",", &save); o; o = strtok_r(NULL, ",", &save)) {
        if(o[0] == 'A') continue;
        /* calls are made whether or not the open succeeded: a failed context must refuse them cleanly */
        if(o[0] == 'R' && o[1] == 'e') read_recover(zck);
        else if(o[0] == 'E') zck_clear_error(zck);
        else if(o[0] == 'r') { char b5[5]; zck_read(zck, b5, sizeof b5); }
        else if(o[0] == 'R') read_all(zck, o[1] == '1' ? 1 : o[1] == '7' ? 7 : 32768);
        else if(o[0] == 'V') zck_validate_checksums(zck);
        else if(o[0] == 'D') zck_validate_data_checksum(zck);
        else if(o[0] == 'F') { zck_find_valid_chunks(zck); zck_reset_failed_chunks(zck); }
        else if(o[0] == 'G') dump_all(zck);
        else if(o[0] == 'C') chunk_data(o[1] == '0' ? zck_get_first_chunk(zck) : last_chunk(zck), false);
        else if(o[0] == 'S') chunk_data(o[1] == '0' ? zck_get_first_chunk(zck) : last_chunk(zck), true);
        else if(o[0] == 'M') {
            for(int lim = -1; lim <= 1; lim += 2) {
                zckRange *r = zck_get_missing_range(zck, lim);
                if(r) {
                    zck_get_range_count(r);
                    char *s = zck_get_range_char(zck, r);
                    free(s);
                    zck_range_free(&r);
                }
            }
        } else if(o[0] == 'P' || o[0] == 'Q') {
            if(!peer) {
                pfd = tmp_file_with("ap", c->peer.p, c->peer.n);
                peer = zck_create();
                if(!zck_init_read(peer, pfd)) die("apiseq: peer does not open");
            }
            if(o[0] == 'Q') { zck_find_matching_chunks(zck, peer); zck_find_matching_chunks(peer, zck); }
            else if(o[1] == 's') zck_copy_chunks(zck, peer);
            else zck_copy_chunks(peer, zck);
        } else if(o[0] == 'X') zck_close(zck);
        else die("apiseq: bad op %s", o);
    }
    free(ops);
    if(peer) { zck_free(&peer); real_close(pfd); }
    zck_free(&zck);
    real_close(fd);
}

static void run_one(int idx, FILE *out, void *vctx) {
    actx *c = vctx;
    acase *k = &c->cases[idx];
    /* a declared chunk size of 2^31 must not make the harness write gigabytes: files are limited to 32 MiB, a write beyond
     * that fails with EFBIG like a full disk would */
    struct rlimit rl = {32u << 20, 32u << 20};
    setrlimit(RLIMIT_FSIZE, &rl);
    signal(SIGXFSZ, SIG_IGN);
    char *seqs = strdup(k->seqs), *save = NULL;
    int i = 0, opened = 0;
    for(char *s = strtok_r(seqs, ";", &save); s; s = strtok_r(NULL, ";", &save), i++) {
        fprintf(out, "A %d seq=%d\n", idx, i);
        fflush(out);
        char *dup = strdup(s);
        run_seq(c, k, dup, &opened);
        free(dup);
    }
    free(seqs);
    fprintf(out, "Z %d opened=%d nseq=%d\n", idx, opened, i);
}

int cmd_apiseq(FILE *job, FILE *out) {
    actx c = {0};
    int cap = 0;
    char *line;
    int chunk = 32, timeout = 10000;
    while((line = read_line(job))) {
        int n;
        char **t = split_ws(line, &n);
        if(n == 0) { free(t); free(line); continue; }
        if(!strcmp(t[0], "peer")) c.peer = blob_arg(t[1]);
        else if(!strcmp(t[0], "chunk")) chunk = atoi(t[1]);
        else if(!strcmp(t[0], "timeout")) timeout = atoi(t[1]);
        else if(!strcmp(t[0], "case")) {
            if(c.n >= cap) { cap = cap ? cap * 2 : 1024; c.cases = realloc(c.cases, cap * sizeof *c.cases); }
            c.cases[c.n].file = blob_arg(kv(t, n, "file", "-"));
            c.cases[c.n].seqs = strdup(kv(t, n, "seqs", "G"));
            c.n++;
        } else die("apiseq: bad line %s", t[0]);
        free(t);
        free(line);
    }
    run_opts o = {.chunk = chunk, .timeout_ms = timeout};
    run_cases(c.n, run_one, &c, o, out);
    return 0;
}
