#include "drv.h"

void wcfg_parse(wcfg *c, char **tok, int n) {
    memset(c, 0, sizeof *c);
    c->comp = (int)kvi(tok, n, "comp", -1);
    c->level = (int)kvi(tok, n, "level", -1);
    c->dict = blob_arg(kv(tok, n, "dict", "-"));
    c->uncomp = (int)kvi(tok, n, "uncomp", 0);
    c->chash = (int)kvi(tok, n, "chash", -1);
    c->fhash = (int)kvi(tok, n, "fhash", -1);
    c->manual = (int)kvi(tok, n, "manual", 0);
    c->min = kvi(tok, n, "min", 0);
    c->max = kvi(tok, n, "max", 0);
    c->max2 = kvi(tok, n, "max2", 0);
    c->nowrite = (int)kvi(tok, n, "nowrite", 0);
    c->refuse = (int)kvi(tok, n, "refuse", 0);
}

#define OPT(call, name) do { if(!(call)) { if(out) fprintf(out, " refused=%s", name); return false; } } while(0)

bool wcfg_apply(zckCtx *zck, const wcfg *c, FILE *out) {
    if(c->comp >= 0) OPT(zck_set_ioption(zck, ZCK_COMP_TYPE, c->comp), "comp");
    if(c->level >= 0) OPT(zck_set_ioption(zck, ZCK_ZSTD_COMP_LEVEL, c->level), "level");
    if(c->dict.n) OPT(zck_set_soption(zck, ZCK_COMP_DICT, (char *)c->dict.p, c->dict.n), "dict");
    if(c->fhash >= 0) OPT(zck_set_ioption(zck, ZCK_HASH_FULL_TYPE, c->fhash), "fhash");
    if(c->chash >= 0) OPT(zck_set_ioption(zck, ZCK_HASH_CHUNK_TYPE, c->chash), "chash");
    if(c->uncomp) OPT(zck_set_ioption(zck, ZCK_UNCOMP_HEADER, 1), "uncomp");
    if(c->manual) OPT(zck_set_ioption(zck, ZCK_MANUAL_CHUNK, 1), "manual");
    /* the API only accepts max before min */
    if(c->max) OPT(zck_set_ioption(zck, ZCK_CHUNK_MAX, c->max), "max");
    if(c->min) OPT(zck_set_ioption(zck, ZCK_CHUNK_MIN, c->min), "min");
    if(c->max2) OPT(zck_set_ioption(zck, ZCK_CHUNK_MAX, c->max2), "max2");
    if(c->nowrite) OPT(zck_set_ioption(zck, ZCK_NO_WRITE, 1), "nowrite");
    if(c->refuse) {
        /* values no configuration may take; a call that is accepted after all becomes part of the configuration and is
         * reported (accepted=<name>) so that the check makes no claim about that case */
#define REFUSED(call, name) do { if(call) fprintf(out, " accepted=%s", name); else if(!zck_clear_error(zck)) { fprintf(out, " fatal=%s", name); return false; } } while(0)
        REFUSED(zck_set_ioption(zck, ZCK_HASH_CHUNK_TYPE, 100), "chash100");
        REFUSED(zck_set_ioption(zck, ZCK_HASH_FULL_TYPE, 100), "fhash100");
        REFUSED(zck_set_ioption(zck, ZCK_CHUNK_MIN, 0), "min0");
        REFUSED(zck_set_ioption(zck, ZCK_CHUNK_MAX, 0), "max0");
        REFUSED(zck_set_ioption(zck, ZCK_CHUNK_MIN, (c->max2 ? c->max2 : c->max ? c->max : 10485760L) + 1), "min>max");
        if(c->min > 1) REFUSED(zck_set_ioption(zck, ZCK_CHUNK_MAX, c->min - 1), "max<min");
        REFUSED(zck_set_ioption(zck, ZCK_CHUNK_MIN, 2147483648L), "min2^31");
        REFUSED(zck_set_ioption(zck, ZCK_COMP_TYPE, 99), "comp99");
        REFUSED(zck_set_ioption(zck, 9999, 1), "ioption9999");
        REFUSED(zck_set_soption(zck, 9999, "x", 1), "soption9999");
    }
    return true;
}

void dump_flags(zckCtx *zck, FILE *out, const char *key) {
    fprintf(out, " %s=", key);
    int any = 0;
    for(zckChunk *c = zck_get_first_chunk(zck); c; c = zck_get_next_chunk(c)) {
        int v = zck_get_chunk_valid(c);
        fputc(v == 1 ? '+' : v == 0 ? '0' : v == -1 ? '!' : '?', out);
        any = 1;
    }
    if(!any) fputc('-', out);
}

/* every public getter, one line */
void dump_meta(zckCtx *zck, FILE *out, const char *prefix) {
    fprintf(out, "%s flags=%zd fhtype=%d fdsize=%zd chtype=%d cdsize=%zd lead=%zd hlen=%zd detached=%d count=%zd",
            prefix, zck_get_flags(zck), zck_get_full_hash_type(zck), zck_get_full_digest_size(zck),
            zck_get_chunk_hash_type(zck), zck_get_chunk_digest_size(zck), zck_get_lead_length(zck),
            zck_get_header_length(zck), (int)zck_is_detached_header(zck), zck_get_chunk_count(zck));
    char *d = zck_get_header_digest(zck);
    fprintf(out, " hdigest=%s", d ? d : "NULL");
    free(d);
    d = zck_get_data_digest(zck);
    fprintf(out, " ddigest=%s", d ? d : "NULL");
    free(d);
    if(zck_get_first_chunk(zck)) {
        fprintf(out, " dlen=%zd tlen=%zd", zck_get_data_length(zck), zck_get_length(zck));
    } else {
        fprintf(out, " dlen=NA tlen=NA");
    }
    fprintf(out, " chunks=");
    int n = 0;
    for(zckChunk *c = zck_get_first_chunk(zck); c; c = zck_get_next_chunk(c)) {
        char *cd = zck_get_chunk_digest(c);
        char *ud = zck_get_chunk_digest_uncompressed(c);
        fprintf(out, "%s%zd:%s:%s:%zd:%zd:%zd:%d", n ? "," : "", zck_get_chunk_number(c), cd ? cd : "NULL", ud ? ud : "",
                zck_get_chunk_start(c), zck_get_chunk_comp_size(c), zck_get_chunk_size(c), zck_get_chunk_valid(c));
        free(cd);
        free(ud);
        n++;
        if(n > 100000) break;
    }
    if(!n) fputc('-', out);
    fprintf(out, " iter=%d", n);
}

/* ------------------------------------------------------------------ reading */
/* job line "recover 1": after a failed read the caller clears the error (zck_clear_error) and goes on reading - what a
 * caller that wants to salvage the rest of a stream would do; the default is to repeat the read with the error pending */
int g_read_recover = 0;

/* read to the end on an already opened context (closes it, does not free it) */
read_res lib_read_ctx(zckCtx *zck, const int *sched, int nsched, size_t cap, bool want_rets) {
    read_res r;
    memset(&r, 0, sizeof r);
    r.open_ok = 1;
    size_t bcap = 1 << 16;
    r.content.p = malloc(bcap);
    int maxbuf = 1;
    for(int i = 0; i < nsched; i++) if(sched[i] > maxbuf) maxbuf = sched[i];
    char *buf = malloc(maxbuf);
    size_t rcap = 0;
    int after_error = 0;
    for(int i = 0;; i++) {
        int sz = sched[i % nsched];
        ssize_t got = zck_read(zck, buf, sz);
        if(want_rets) {
            if((size_t)r.nreads >= rcap) { rcap = rcap ? rcap * 2 : 64; r.rets = realloc(r.rets, rcap * sizeof *r.rets); }
            r.rets[r.nreads] = got;
        }
        r.nreads++;
        r.last_ret = got;
        if(got > 0) {
            if((size_t)got > (size_t)sz) { r.overrun = 1; got = sz; }
            if(r.content.n + got > bcap) { while(r.content.n + got > bcap) bcap *= 2; r.content.p = realloc(r.content.p, bcap); }
            memcpy(r.content.p + r.content.n, buf, got);
            r.content.n += got;
        }
        if(got < 0) {
            /* C15: a few further reads after the first error must not yield data either */
            if(!r.first_err_at) { r.first_err_at = r.nreads; r.bytes_before_err = r.content.n; }
            if(++after_error > (g_read_recover ? 8 : 3)) break;
            if(g_read_recover && !zck_clear_error(zck)) break;   /* fatal errors cannot be cleared */
            continue;
        }
        if(got == 0) break;
        if(r.content.n > cap || r.nreads > 50000000) { r.runaway = 1; break; }
    }
    snprintf(r.err, sizeof r.err, "%s", zck_get_error(zck));
    r.close_ok = zck_close(zck);
    free(buf);
    return r;
}

read_res lib_read_all(int fd, const int *sched, int nsched, size_t cap, bool want_rets) {
    real_lseek(fd, 0, SEEK_SET);
    zckCtx *zck = zck_create();
    if(!zck) die("zck_create");
    if(!zck_init_read(zck, fd)) {
        read_res r;
        memset(&r, 0, sizeof r);
        snprintf(r.err, sizeof r.err, "%s", zck_get_error(zck));
        zck_free(&zck);
        return r;
    }
    read_res r = lib_read_ctx(zck, sched, nsched, cap, want_rets);
    zck_free(&zck);
    return r;
}

void read_res_print(const read_res *r, FILE *out, bool want_rets) {
    fprintf(out, " open=%d reads=%d last=%d rclose=%d ferr=%d bbe=%zu runaway=%d overrun=%d", r->open_ok, r->nreads, r->last_ret,
            r->close_ok, r->first_err_at, r->bytes_before_err, r->runaway, r->overrun);
    put_blob(out, "content", r->content.p, r->content.n);
    if(want_rets && r->rets) {
        fprintf(out, " rets=");
        for(int i = 0; i < r->nreads; i++) fprintf(out, "%s%zd", i ? "," : "", r->rets[i]);
    }
    fprintf(out, " rerr=");
    put_hex(out, r->err, strlen(r->err) > 48 ? 48 : strlen(r->err));
}

void read_res_free(read_res *r) {
    free(r->content.p);
    free(r->rets);
}

/* "1;7;1,5,2" -> list of schedules */
int parse_scheds(const char *s, int ***out, int **lens) {
    char *dup = strdup(s);
    int n = 0, cap = 8;
    int **sc = malloc(cap * sizeof *sc);
    int *ln = malloc(cap * sizeof *ln);
    char *save = NULL;
    for(char *p = strtok_r(dup, ";", &save); p; p = strtok_r(NULL, ";", &save)) {
        if(n >= cap) { cap *= 2; sc = realloc(sc, cap * sizeof *sc); ln = realloc(ln, cap * sizeof *ln); }
        sc[n] = parse_int_list(p, &ln[n]);
        if(ln[n] == 0) die("empty schedule");
        for(int i = 0; i < ln[n]; i++) if(sc[n][i] <= 0) die("bad read size");
        n++;
    }
    free(dup);
    *out = sc;
    *lens = ln;
    return n;
}
