/* openenum: open verdict of mutants of a base file (C06, C07 header part, C13 open gate)
 *
 * job lines:
 *   mode init|adv
 *   pin type=<n> digest=<hex of the ASCII digest string> len=<n> [late=1]     (adv mode only; any subset; late=1: the pins are
 *                              set after zck_read_lead and before zck_read_header)
 *   prev <mode> <blob>       adv mode: the context has a past - it first sees this other file (mode 1: zck_validate_lead only, mode 2: lead and
 *                            header read), then zck_init_adv_read() is called again on the same context with the file under test
 *   base <blob>
 *   subst <lo> <hi>          one case per position: all 255 substitute values are tried in-process
 *   edit <pos> <ndel> <ins>  one case: delete ndel bytes at pos, insert ins
 *   file <blob>              one case: the blob as the whole file
 *   retry <0|1>              adv mode: a failed zck_read_lead / zck_read_header is followed by zck_clear_error and a second call
 *   allocfail <0|1>          subst cases additionally try every substitute with each single allocation of the open failing
 *                            (allocator seam); reported as aopened=<value>:<k>,... and allocs=<allocations of a clean open>
 * output per case:
 *   S <idx> pos=<p> tried=255 opened=<list of values that opened, comma separated or -> cksum=<n rejected with the
 *           header-checksum message>
 *   E <idx> opened=<0|1> stage=<msg prefix hex>
 */
#include "drv.h"

typedef struct { int kind; long a, b; blob ins; } ocase;
typedef struct {
    blob base;
    int adv;
    int pin_type; blob pin_digest; long pin_len; int have_pin_type, have_pin_digest, have_pin_len, pin_late;
    int allocfail;
    blob prev; int prevmode;
    int retry;          /* a caller that answers a failed step with zck_clear_error() and calls the step again (healthy allocator) */
    ocase *cases; int n;
} octx;

static int step(zckCtx *zck, octx *c, bool (*fn)(zckCtx *)) {
    int ok = fn(zck);
    if(!ok && c->retry) {
        env_alloc_on = 0;
        if(zck_clear_error(zck)) ok = fn(zck);
    }
    return ok;
}

static int try_open(int fd, octx *c, char *msg, size_t msgn) {
    zckCtx *zck = zck_create();
    if(!zck) die("zck_create");
    int ok = 0;
    real_lseek(fd, 0, SEEK_SET);
    env_alloc_count = 0;
    env_alloc_on = env_alloc_fail_at >= -1 && c->allocfail;
    if(!c->adv) {
        ok = zck_init_read(zck, fd);
    } else {
        int pfd = -1;
        if(c->prev.n) {
            pfd = tmp_file_with("op", c->prev.p, c->prev.n);
            if(!zck_init_adv_read(zck, pfd)) die("prev: init");
            if(c->prevmode == 1) { if(!zck_validate_lead(zck)) die("prev: lead refused: %s", zck_get_error(zck)); }
            else if(!zck_read_lead(zck) || !zck_read_header(zck)) die("prev: does not open: %s", zck_get_error(zck));
        }
        ok = zck_init_adv_read(zck, fd);
        if(pfd >= 0) real_close(pfd);
        /* late=1: the caller sets its pins between reading the lead and reading the header */
        int lead_ok = 1;
        if(ok && c->pin_late) lead_ok = step(zck, c, zck_read_lead);
        if(ok && !lead_ok) { env_alloc_on = 0; if(msg) snprintf(msg, msgn, "%s", zck_get_error(zck)); zck_free(&zck); return 0; }
        if(ok && c->have_pin_type) ok = zck_set_ioption(zck, ZCK_VAL_HEADER_HASH_TYPE, c->pin_type);
        if(ok && c->have_pin_digest)
            ok = zck_set_soption(zck, ZCK_VAL_HEADER_DIGEST, (char *)c->pin_digest.p, c->pin_digest.n);
        if(ok && c->have_pin_len) ok = zck_set_ioption(zck, ZCK_VAL_HEADER_LENGTH, c->pin_len);
        if(!ok) die("pins refused on base configuration: %s", zck_get_error(zck));
        ok = c->pin_late ? step(zck, c, zck_read_header) : (step(zck, c, zck_read_lead) && step(zck, c, zck_read_header));
    }
    env_alloc_on = 0;
    if(msg) snprintf(msg, msgn, "%s", zck_get_error(zck));
    zck_free(&zck);
    return ok;
}

static void run_one(int idx, FILE *out, void *vctx) {
    octx *c = vctx;
    ocase *k = &c->cases[idx];
    char msg[256];
    if(k->kind == 's') {
        size_t pos = k->a;
        int fd = tmp_file_with("oe", c->base.p, c->base.n);
        unsigned char orig = c->base.p[pos];
        fprintf(out, "S %d pos=%zu tried=255 opened=", idx, pos);
        int nopen = 0, ncks = 0;
        for(int v = 0; v < 256; v++) {
            if(v == orig) continue;
            unsigned char b = v;
            if(pwrite(fd, &b, 1, pos) != 1) die("pwrite");
            if(try_open(fd, c, msg, sizeof msg)) {
                fprintf(out, "%s%d", nopen ? "," : "", v);
                nopen++;
            } else if(strstr(msg, "Header checksum failed")) ncks++;
        }
        if(!nopen) fputc('-', out);
        fprintf(out, " cksum=%d", ncks);
        if(c->allocfail) {
            /* allocations of a clean open of the unmodified base */
            if(pwrite(fd, &orig, 1, pos) != 1) die("pwrite");
            env_alloc_fail_at = -1;
            try_open(fd, c, NULL, 0);
            int nalloc = env_alloc_count, na = 0;
            fprintf(out, " allocs=%d aopened=", nalloc);
            for(int v = 0; v < 256; v++) {
                if(v == orig) continue;
                unsigned char b = v;
                if(pwrite(fd, &b, 1, pos) != 1) die("pwrite");
                for(int k = 0; k < nalloc + 2; k++) {
                    env_alloc_fail_at = k;
                    if(try_open(fd, c, NULL, 0)) { fprintf(out, "%s%d:%d", na ? "," : "", v, k); na++; }
                }
            }
            env_alloc_fail_at = -1;
            if(!na) fputc('-', out);
        }
        fputc('\n', out);
        real_close(fd);
    } else {
        blob m;
        if(k->kind == 'f') {
            m = blob_dup(k->ins.p, k->ins.n);
        } else {
            size_t pos = k->a, del = k->b;
            if(pos > c->base.n) die("edit pos");
            if(pos + del > c->base.n) del = c->base.n - pos;
            m = blob_new(c->base.n - del + k->ins.n);
            memcpy(m.p, c->base.p, pos);
            memcpy(m.p + pos, k->ins.p, k->ins.n);
            memcpy(m.p + pos + k->ins.n, c->base.p + pos + del, c->base.n - pos - del);
        }
        int fd = tmp_file_with("oe", m.p, m.n);
        int ok = try_open(fd, c, msg, sizeof msg);
        fprintf(out, "E %d opened=%d stage=", idx, ok);
        put_hex(out, msg, strlen(msg) > 60 ? 60 : strlen(msg));
        fputc('\n', out);
        real_close(fd);
        blob_free(&m);
    }
}

int cmd_openenum(FILE *job, FILE *out) {
    octx c = {0};
    int cap = 0;
    char *line;
    while((line = read_line(job))) {
        int n;
        char **t = split_ws(line, &n);
        if(n == 0) { free(t); free(line); continue; }
        if(!strcmp(t[0], "mode")) c.adv = !strcmp(t[1], "adv");
        else if(!strcmp(t[0], "allocfail")) c.allocfail = atoi(t[1]);
        else if(!strcmp(t[0], "prev")) { c.prevmode = atoi(t[1]); c.prev = blob_arg(t[2]); }
        else if(!strcmp(t[0], "retry")) c.retry = atoi(t[1]);
        else if(!strcmp(t[0], "base")) c.base = blob_arg(t[1]);
        else if(!strcmp(t[0], "pin")) {
            const char *v;
            if((v = kv(t, n, "type", NULL))) { c.pin_type = atoi(v); c.have_pin_type = 1; }
            if((v = kv(t, n, "digest", NULL))) { c.pin_digest = blob_arg(v); c.have_pin_digest = 1; }
            if((v = kv(t, n, "len", NULL))) { c.pin_len = atol(v); c.have_pin_len = 1; }
            c.pin_late = (int)kvi(t, n, "late", 0);
        } else {
            if(c.n + 1 >= cap) { cap = cap ? cap * 2 : 1024; c.cases = realloc(c.cases, cap * sizeof *c.cases); }
            if(!strcmp(t[0], "subst")) {
                long lo = atol(t[1]), hi = atol(t[2]);
                for(long p = lo; p < hi; p++) {
                    if(c.n + 1 >= cap) { cap *= 2; c.cases = realloc(c.cases, cap * sizeof *c.cases); }
                    ocase k = {'s', p, 0, {0}};
                    c.cases[c.n++] = k;
                }
            } else if(!strcmp(t[0], "edit")) {
                ocase k = {'e', atol(t[1]), atol(t[2]), blob_arg(t[3])};
                c.cases[c.n++] = k;
            } else if(!strcmp(t[0], "file")) {
                ocase k = {'f', 0, 0, blob_arg(t[1])};
                c.cases[c.n++] = k;
            } else die("openenum: bad line %s", t[0]);
        }
        free(t);
        free(line);
    }
    run_opts o = {.chunk = 32, .timeout_ms = 10000, .confirm_hang = true};
    run_cases(c.n, run_one, &c, o, out);
    return 0;
}
