/* compint: exhaustive codec check against exact arithmetic, strings flush against an inaccessible page (C20)
 *
 * job lines (each is one or more cases):
 *   decode first=<lo>-<hi> maxlen=<1..3> offsets=0,1,5     every string of length 1..maxlen whose first byte is in
 *                                                          [lo,hi], at each offset, total = offset+len (flush)
 *   empty offsets=0,1,5                                     zero bytes available
 *   beyond                                                  the cursor is already past the end of the buffer (total in
 *                                                          {0,1,5}, cursor = total + {1,2,9,64,4000}): must fail, no read
 *   long first=<lo>-<hi> len=<8..11> prefix=<0|1|2> tail=<2|3> offsets=0[,5]
 *                           strings of that length: prefix pattern, then every value in the last `tail` positions,
 *                           the first enumerated position restricted to [lo,hi]
 *   round lo=<a> hi=<b>     encode->decode of every value in [a,b)
 *   roundpow                all 2^k, 2^k-1, 2^k+1 for k<=64 (size_t) / k<=31 (int) and negatives for int
 *   dump maxlen=<1|2>       print the oracle's verdict for every string (conformance of the oracle with zckref.py)
 * output: per case  C <idx> calls=<n> ok=<n> term_at_end=<n> overflow=<n> then M lines (first mismatches):
 *   M <idx> fn=<size|int|enc> pred=<...> bytes=<hex> off=<o> exp=<..> got=<..>
 */
#include "drv.h"
#include <signal.h>
#include <setjmp.h>
#include <sys/mman.h>
#include <limits.h>
#include "zck_private.h"

typedef unsigned __int128 u128;

typedef struct { char kind; int lo, hi, maxlen, len, prefix, tail; int offs[4]; int noffs; unsigned long long rlo, rhi; int ctxmode; } ccase;
typedef struct { ccase *cases; int n; } cctx;

static sigjmp_buf jb;
static volatile sig_atomic_t armed = 0;
static unsigned char *page;     /* two pages: [rw][none] */
static long pagesz;

static void on_segv(int sig, siginfo_t *si, void *u) {
    (void)sig; (void)u;
    if(armed && (unsigned char *)si->si_addr >= page + pagesz && (unsigned char *)si->si_addr < page + 2 * pagesz) {
        armed = 0;
        siglongjmp(jb, 1);
    }
    signal(SIGSEGV, SIG_DFL);
    raise(SIGSEGV);
}

static void setup_guard(void) {
    pagesz = sysconf(_SC_PAGESIZE);
    page = mmap(NULL, 2 * pagesz, PROT_READ | PROT_WRITE, MAP_PRIVATE | MAP_ANONYMOUS, -1, 0);
    if(page == MAP_FAILED) die("mmap");
    if(mprotect(page + pagesz, pagesz, PROT_NONE)) die("mprotect");
    struct sigaction sa;
    memset(&sa, 0, sizeof sa);
    sa.sa_sigaction = on_segv;
    sa.sa_flags = SA_SIGINFO | SA_NODEFER;
    sigaction(SIGSEGV, &sa, NULL);
}

/* oracle: exact arithmetic.  returns 1 and sets value/len, or 0 for "must fail" */
static int oracle(const unsigned char *s, size_t avail, u128 limit_excl, u128 *val, size_t *len) {
    u128 v = 0;
    for(size_t i = 0;; i++) {
        if(i >= avail) return 0;    /* unterminated within the buffer */
        if(i >= 10) return 0;       /* longer than ten bytes */
        v += (u128)(s[i] & 0x7f) << (7 * i);
        if(s[i] & 0x80) {
            if(v >= limit_excl) return 0;
            *val = v;
            *len = i + 1;
            return 1;
        }
    }
}

static zckCtx *zck;
static void reset_ctx(void) {
    if(zck->error_state) {
        free(zck->msg);
        zck->msg = NULL;
        zck->error_state = 0;
    }
}

typedef struct { long calls, ok, term_end, overflow, mism; int idx; FILE *out; } stats;

static void mismatch(stats *st, const char *fn, const char *pred, const unsigned char *s, size_t n, int off,
                     const char *exp, const char *got) {
    st->mism++;
    if(st->mism > 12) return;
    fprintf(st->out, "M %d fn=%s pred=%s bytes=", st->idx, fn, pred);
    put_hex(st->out, s, n);
    fprintf(st->out, " off=%d exp=%s got=%s\n", off, exp, got);
}

/* the caller's cursor is d bytes past the end of a buffer of `total` bytes that ends at the guard page: nothing may be read */
static void check_beyond(stats *st, size_t total, size_t d) {
    unsigned char *base = page + pagesz - total;
    memset(base, 0x81, total);
    unsigned char none[1] = {0};
    for(int fn = 0; fn < 2; fn++) {
        size_t length = total + d, v = 0x5a5a5a5a;
        int iv = 0x5a5a, r = 0;
        st->calls++;
        st->overflow++;
        armed = 1;
        if(sigsetjmp(jb, 1) == 0) {
            if(fn == 0) r = compint_to_size(zck, &v, (char *)base + length, &length, total);
            else r = compint_to_int(zck, &iv, (char *)base + length, &length, total);
            armed = 0;
        } else {
            reset_ctx();
            mismatch(st, fn ? "int" : "size", "read-past-end-of-buffer", none, 0, (int)(total + d), "fail", "SIGSEGV-on-guard-page");
            continue;
        }
        reset_ctx();
        if(r) mismatch(st, fn ? "int" : "size", "accepted:cursor-beyond-end-of-buffer", none, 0, (int)(total + d), "fail", "success");
    }
}

/* decode string s (n bytes) placed so that it ends exactly at the guard page, preceded by `off` filler bytes */
static void check_decode(stats *st, const unsigned char *s, size_t n, int off) {
    unsigned char *base = page + pagesz - n - off;
    memset(base, 0x55, off);
    memcpy(base + off, s, n);
    size_t total = off + n;
    char e[96], g[96];
    for(int fn = 0; fn < 2; fn++) {
        u128 ev = 0;
        size_t el = 0;
        int eok = oracle(s, n, fn == 0 ? ((u128)1 << 64) : ((u128)INT_MAX + 1), &ev, &el);
        size_t length = off;
        size_t v = 0x5a5a5a5a;
        int iv = 0x5a5a;
        int r = 0;
        st->calls++;
        armed = 1;
        if(sigsetjmp(jb, 1) == 0) {
            if(fn == 0) r = compint_to_size(zck, &v, (char *)base + off, &length, total);
            else r = compint_to_int(zck, &iv, (char *)base + off, &length, total);
            armed = 0;
        } else {
            reset_ctx();
            mismatch(st, fn ? "int" : "size", "read-past-end-of-buffer", s, n, off, eok ? "value" : "fail", "SIGSEGV-on-guard-page");
            continue;
        }
        reset_ctx();
        unsigned long long gv = fn == 0 ? (unsigned long long)v : (unsigned long long)(long long)iv;
        if(eok) {
            st->ok++;
            if(el == n) st->term_end++;
            if(!r) {
                snprintf(e, sizeof e, "%llu/len%zu", (unsigned long long)ev, el);
                mismatch(st, fn ? "int" : "size", "spurious-failure", s, n, off, e, "fail");
            } else if(gv != (unsigned long long)ev || length != off + el) {
                snprintf(e, sizeof e, "%llu/len%zu", (unsigned long long)ev, el);
                snprintf(g, sizeof g, "%llu/len%zu", gv, length - off);
                mismatch(st, fn ? "int" : "size", gv != (unsigned long long)ev ? "wrong-value" : "wrong-length", s, n, off, e, g);
            }
        } else {
            st->overflow++;
            if(r) {
                snprintf(g, sizeof g, "%llu/len%zu", gv, length - off);
                /* classify why the oracle says it must fail */
                const char *why = "unterminated-in-buffer";
                size_t i;
                for(i = 0; i < n && i < 10; i++) if(s[i] & 0x80) break;
                if(i < n && i < 10) why = fn ? "does-not-fit-int" : "does-not-fit-64bit";
                else if(n > 10) why = "longer-than-ten-bytes";
                char pr[64];
                snprintf(pr, sizeof pr, "accepted:%s", why);
                mismatch(st, fn ? "int" : "size", pr, s, n, off, "fail", g);
            }
        }
    }
}

static void check_round_size(stats *st, unsigned long long v) {
    int n = 1;
    for(unsigned long long t = v >> 7; t; t >>= 7) n++;
    unsigned char *base = page + pagesz - n;
    memset(base, 0, n);
    size_t len = 0;
    char e[64], g[64];
    st->calls++;
    armed = 1;
    if(sigsetjmp(jb, 1) == 0) {
        compint_from_size((char *)base, v, &len);
        armed = 0;
    } else {
        snprintf(e, sizeof e, "%llu", v);
        mismatch(st, "enc", "encoder-wrote-past-expected-length", base, n, 0, e, "SIGSEGV");
        return;
    }
    if(len != (size_t)n || len > 10) {
        snprintf(e, sizeof e, "len%d", n);
        snprintf(g, sizeof g, "len%zu", len);
        mismatch(st, "enc", "wrong-encoded-length", base, n, 0, e, g);
        return;
    }
    u128 ev; size_t el;
    if(!oracle(base, n, (u128)1 << 64, &ev, &el) || ev != v || el != (size_t)n) {
        snprintf(e, sizeof e, "%llu", v);
        mismatch(st, "enc", "encoding-is-not-the-format's", base, n, 0, e, "other");
        return;
    }
    size_t dv = 0, dl = 0;
    int r = compint_to_size(zck, &dv, (char *)base, &dl, n);
    reset_ctx();
    if(!r || dv != v || dl != (size_t)n) {
        snprintf(e, sizeof e, "%llu/len%d", v, n);
        snprintf(g, sizeof g, "r%d:%zu/len%zu", r, dv, dl);
        mismatch(st, "size", "round-trip", base, n, 0, e, g);
    } else st->ok++;
}

static void check_round_int(stats *st, long long v) {
    unsigned char buf[16] = {0};
    size_t len = 0;
    char e[64], g[64];
    st->calls++;
    if(v < 0 || v > INT_MAX) {
        /* not representable as non-negative int: only negatives can be passed through the int API */
        if(v < INT_MIN || v > INT_MAX) return;
        int r = compint_from_int(zck, (char *)buf, (int)v, &len);
        reset_ctx();
        if(r || len) {
            snprintf(e, sizeof e, "%lld", v);
            mismatch(st, "enc", "negative-int-encoded", buf, len, 0, e, "accepted");
        } else st->ok++;
        return;
    }
    int r = compint_from_int(zck, (char *)buf, (int)v, &len);
    reset_ctx();
    int dv = -1;
    size_t dl = 0;
    int r2 = r ? compint_to_int(zck, &dv, (char *)buf, &dl, len) : 0;
    reset_ctx();
    if(!r || !r2 || dv != v || dl != len || len > 5) {
        snprintf(e, sizeof e, "%lld", v);
        snprintf(g, sizeof g, "r%d,%d:%d/len%zu", r, r2, dv, dl);
        mismatch(st, "int", "round-trip", buf, len, 0, e, g);
    } else st->ok++;
}

static void run_one(int idx, FILE *out, void *vctx) {
    cctx *c = vctx;
    ccase *k = &c->cases[idx];
    static int inited = 0;
    if(!inited) {
        setup_guard();
        zck = zck_create();
        /* ctx=1: the codec is handed a context that is in the middle of writing a file; ctx=2: one that has a file open for
         * reading (the property is about the codec - what the context is otherwise used for must not matter) */
        if(zck && k->ctxmode) {
            int fd = tmp_file("ci");
            if(!zck_init_write(zck, fd) || zck_write(zck, "some chunk data", 15) != 15) die("compint: writer context");
            if(k->ctxmode == 2) {
                if(!zck_close(zck)) die("compint: close");
                zck_free(&zck);
                real_lseek(fd, 0, SEEK_SET);
                zck = zck_create();
                if(!zck || !zck_init_read(zck, fd)) die("compint: reader context");
            }
        }
        if(!zck) die("compint: no context");
        inited = 1;
    }
    stats st = {0};
    st.idx = idx;
    st.out = out;
    unsigned char s[16];
    if(k->kind == 'd') {
        for(int b0 = k->lo; b0 <= k->hi; b0++) {
            s[0] = b0;
            for(int o = 0; o < k->noffs; o++) check_decode(&st, s, 1, k->offs[o]);
            if(k->maxlen >= 2)
                for(int b1 = 0; b1 < 256; b1++) {
                    s[1] = b1;
                    for(int o = 0; o < k->noffs; o++) check_decode(&st, s, 2, k->offs[o]);
                    if(k->maxlen >= 3)
                        for(int b2 = 0; b2 < 256; b2++) {
                            s[2] = b2;
                            for(int o = 0; o < k->noffs; o++) check_decode(&st, s, 3, k->offs[o]);
                        }
                }
        }
    } else if(k->kind == 'b') {
        static const size_t totals[] = {0, 1, 5}, ds[] = {1, 2, 9, 64, 4000};
        for(int a = 0; a < 3; a++) for(int b = 0; b < 5; b++) check_beyond(&st, totals[a], ds[b]);
    } else if(k->kind == 'e') {
        for(int o = 0; o < k->noffs; o++) check_decode(&st, s, 0, k->offs[o]);
    } else if(k->kind == 'l') {
        int n = k->len, t = k->tail;
        for(int i = 0; i < n - t; i++)
            s[i] = k->prefix == 0 ? 0x00 : k->prefix == 1 ? 0x7f : (unsigned char)(0x11 * (i + 1)) & 0x7f;
        for(int b0 = k->lo; b0 <= k->hi; b0++) {
            s[n - t] = b0;
            for(int b1 = 0; b1 < 256; b1++) {
                s[n - t + 1] = b1;
                if(t == 2) {
                    for(int o = 0; o < k->noffs; o++) check_decode(&st, s, n, k->offs[o]);
                } else {
                    for(int b2 = 0; b2 < 256; b2++) {
                        s[n - 1] = b2;
                        for(int o = 0; o < k->noffs; o++) check_decode(&st, s, n, k->offs[o]);
                    }
                }
            }
        }
    } else if(k->kind == 'r') {
        for(unsigned long long v = k->rlo; v < k->rhi; v++) {
            check_round_size(&st, v);
            check_round_int(&st, (long long)v);
        }
    } else if(k->kind == 'p') {
        for(int b = 0; b <= 64; b++) {
            u128 p = (u128)1 << b;
            for(int d = -1; d <= 1; d++) {
                u128 v = p + d;
                if(b == 0 && d == -1) v = 0;
                if(v < ((u128)1 << 64)) check_round_size(&st, (unsigned long long)v);
                if(b <= 32) {
                    check_round_int(&st, (long long)v);
                    check_round_int(&st, -(long long)v);
                }
            }
        }
    } else if(k->kind == 'D') {
        /* oracle dump for conformance with the Python reference */
        for(int b0 = 0; b0 < 256; b0++) {
            s[0] = b0;
            for(int b1 = -1; b1 < (k->maxlen >= 2 ? 256 : 0); b1++) {
                size_t n = 1;
                if(b1 >= 0) { s[1] = b1; n = 2; }
                u128 ev = 0; size_t el = 0;
                int ok = oracle(s, n, (u128)1 << 64, &ev, &el);
                fprintf(out, "O %d s=", idx);
                put_hex(out, s, n);
                fprintf(out, " ok=%d v=%llu l=%zu\n", ok, (unsigned long long)ev, el);
            }
        }
    }
    fprintf(out, "C %d calls=%ld ok=%ld term_at_end=%ld mustfail=%ld mism=%ld\n", idx, st.calls, st.ok, st.term_end, st.overflow,
            st.mism);
}

static void parse_range(const char *s, int *lo, int *hi) {
    *lo = 0; *hi = 255;
    if(s) sscanf(s, "%d-%d", lo, hi);
}

int cmd_compint(FILE *job, FILE *out) {
    cctx c = {0};
    int cap = 0;
    char *line;
    while((line = read_line(job))) {
        int n;
        char **t = split_ws(line, &n);
        if(n == 0) { free(t); free(line); continue; }
        ccase k;
        memset(&k, 0, sizeof k);
        int nl;
        int *ol = parse_int_list(kv(t, n, "offsets", "0"), &nl);
        k.noffs = nl > 4 ? 4 : nl;
        for(int i = 0; i < k.noffs; i++) k.offs[i] = ol[i];
        parse_range(kv(t, n, "first", NULL), &k.lo, &k.hi);
        k.maxlen = (int)kvi(t, n, "maxlen", 2);
        k.len = (int)kvi(t, n, "len", 10);
        k.prefix = (int)kvi(t, n, "prefix", 0);
        k.tail = (int)kvi(t, n, "tail", 3);
        k.rlo = strtoull(kv(t, n, "lo", "0"), NULL, 0);
        k.rhi = strtoull(kv(t, n, "hi", "0"), NULL, 0);
        k.ctxmode = (int)kvi(t, n, "ctx", 0);
        if(!strcmp(t[0], "decode")) k.kind = 'd';
        else if(!strcmp(t[0], "empty")) k.kind = 'e';
        else if(!strcmp(t[0], "beyond")) k.kind = 'b';
        else if(!strcmp(t[0], "long")) k.kind = 'l';
        else if(!strcmp(t[0], "round")) k.kind = 'r';
        else if(!strcmp(t[0], "roundpow")) k.kind = 'p';
        else if(!strcmp(t[0], "dump")) k.kind = 'D';
        else die("compint: bad line %s", t[0]);
        if(c.n >= cap) { cap = cap ? cap * 2 : 64; c.cases = realloc(c.cases, cap * sizeof *c.cases); }
        c.cases[c.n++] = k;
        free(t);
        free(line);
    }
    run_opts o = {.chunk = 1, .timeout_ms = 600000};
    run_cases(c.n, run_one, &c, o, out);
    return 0;
}
