/* pin: pinned header validation histories (C07)
 *
 * job lines:
 *   base <blob>
 *   seq <ops>        one case; ops comma separated: T<int> type pin, D<hex of the ASCII string> digest pin ("D-" empty),
 *                    L<int> length pin, V validate lead, R read lead, H read header, I zck_init_adv_read() again on the same context
 *                    after a refused call zck_clear_error() is called (as a caller would); 'x' marks a context whose
 *                    error could not be cleared
 *   alt <blob>       a second file; the op W replaces the bytes behind the descriptor with it and seeks to 0 (the file
 *                    changed between validating the lead and reading it)
 *   dsub type=<t> digest=<hex of ASCII digest> pos=<p>
 *                    one case: for every byte value v the digest string with position p := v is pinned after the
 *                    type; then the lead is read
 * output:  P <idx> res=<r,r,...>     each r: 1 ok, 0 refused, 0x refused and context dead
 *          Q <idx> pos=<p> set=<256 x 0|1> lead=<256 x 0|1|->
 */
#include "drv.h"

typedef struct { char kind; char *ops; int type; blob digest; int pos; } pcase;
typedef struct { blob base, alt; pcase *cases; int n; } pctx;

static zckCtx *fresh(int fd) {
    real_lseek(fd, 0, SEEK_SET);
    zckCtx *zck = zck_create();
    if(!zck || !zck_init_adv_read(zck, fd)) die("adv read init");
    return zck;
}

static void run_one(int idx, FILE *out, void *vctx) {
    pctx *c = vctx;
    pcase *k = &c->cases[idx];
    int fd = tmp_file_with("pin", c->base.p, c->base.n);
    if(k->kind == 'q') {
        char set[257], lead[257];
        for(int v = 0; v < 256; v++) {
            zckCtx *zck = fresh(fd);
            blob s = blob_dup(k->digest.p, k->digest.n);
            s.p[k->pos] = v;
            bool ok = zck_set_ioption(zck, ZCK_VAL_HEADER_HASH_TYPE, k->type);
            if(!ok) die("type pin refused");
            bool sr = zck_set_soption(zck, ZCK_VAL_HEADER_DIGEST, (char *)s.p, s.n);
            set[v] = sr ? '1' : '0';
            if(!sr && !zck_clear_error(zck)) lead[v] = '-';
            else lead[v] = zck_read_lead(zck) ? '1' : '0';
            blob_free(&s);
            zck_free(&zck);
        }
        set[256] = lead[256] = 0;
        fprintf(out, "Q %d pos=%d set=%s lead=%s\n", idx, k->pos, set, lead);
    } else {
        zckCtx *zck = fresh(fd);
        fprintf(out, "P %d res=", idx);
        char *ops = strdup(k->ops), *save = NULL;
        int n = 0;
        for(char *op = strtok_r(ops, ",", &save); op; op = strtok_r(NULL, ",", &save), n++) {
            bool r;
            switch(op[0]) {
            case 'T': r = zck_set_ioption(zck, ZCK_VAL_HEADER_HASH_TYPE, atol(op + 1)); break;
            case 'L': r = zck_set_ioption(zck, ZCK_VAL_HEADER_LENGTH, atol(op + 1)); break;
            case 'D': {
                blob s = blob_arg(op + 1);
                r = zck_set_soption(zck, ZCK_VAL_HEADER_DIGEST, (char *)s.p, s.n);
                blob_free(&s);
                break;
            }
            case 'W':
                if(!c->alt.n) die("pin: W without alt");
                if(ftruncate(fd, 0) != 0 || pwrite(fd, c->alt.p, c->alt.n, 0) != (ssize_t)c->alt.n) die("pin: rewrite");
                real_lseek(fd, 0, SEEK_SET);
                r = 1;
                break;
            case 'I':      /* the same context is given a file again (zck_init_adv_read on the same descriptor, position 0) */
                real_lseek(fd, 0, SEEK_SET);
                r = zck_init_adv_read(zck, fd);
                break;
            case 'V': r = zck_validate_lead(zck); break;
            case 'R': r = zck_read_lead(zck); break;
            case 'H': r = zck_read_header(zck); break;
            default: die("pin: bad op %s", op);
            }
            fprintf(out, "%s%d", n ? "," : "", r);
            if(!r && !zck_clear_error(zck)) fputc('x', out);
        }
        fputc('\n', out);
        free(ops);
        zck_free(&zck);
    }
    real_close(fd);
}

int cmd_pin(FILE *job, FILE *out) {
    pctx c = {0};
    int cap = 0;
    char *line;
    while((line = read_line(job))) {
        int n;
        char **t = split_ws(line, &n);
        if(n == 0) { free(t); free(line); continue; }
        if(!strcmp(t[0], "base")) c.base = blob_arg(t[1]);
        else if(!strcmp(t[0], "alt")) c.alt = blob_arg(t[1]);
        else {
            if(c.n >= cap) { cap = cap ? cap * 2 : 1024; c.cases = realloc(c.cases, cap * sizeof *c.cases); }
            pcase k;
            memset(&k, 0, sizeof k);
            if(!strcmp(t[0], "seq")) { k.kind = 'p'; k.ops = strdup(t[1]); }
            else if(!strcmp(t[0], "dsub")) {
                k.kind = 'q';
                k.type = (int)kvi(t + 1, n - 1, "type", 1);
                k.digest = blob_arg(kv(t + 1, n - 1, "digest", "-"));
                k.pos = (int)kvi(t + 1, n - 1, "pos", 0);
            } else die("pin: bad line %s", t[0]);
            c.cases[c.n++] = k;
        }
        free(t);
        free(line);
    }
    run_opts o = {.chunk = 64, .timeout_ms = 10000, .confirm_hang = true};
    run_cases(c.n, run_one, &c, o, out);
    return 0;
}
